//! Independent fault model for the float seams (thorough tier of C12 / C14): run a small fixed
//! workload under Miri, whose own model of the documented non-determinism of f64::exp2 / f64::powi
//! perturbs the intrinsics (seeded by -Zmiri-many-seeds). No perturbation comes from the simulator here.
//!   cargo +nightly miri run --bin miri_slice -- <C12|C14>
use simdec::env::floatsite::FloatEnv;
use simdec::framework::{Obs, Property};
use simdec::props::{c12, c14};
use simdec::refdec::Dec;

fn main() {
    std::panic::set_hook(Box::new(|_| {}));
    let which = std::env::args().nth(1).unwrap_or_else(|| "C12".into());
    let mut failures = 0usize;
    let mut obs = Obs::default();
    if which == "C12" {
        let xs: [(&str, i64); 10] = [("7", 0), ("-3", 9), ("5", 0), ("78125", -12), ("99999999999999999999", 4), ("1000000000000000000001", -30), ("-65536", 0), ("123456789", 4), ("2", 1), ("-8", 0)];
        let modes = [c12::Mode::Down, c12::Mode::Up, c12::Mode::Floor, c12::Mode::Ceiling, c12::Mode::HalfEven];
        for (i, (int, scale)) in xs.iter().enumerate() {
            for &prec in &[1u64, 3, 17] {
                let t = c12::Trace { x: Dec { int: int.to_string(), scale: *scale }, prec, mode: modes[(i + prec as usize) % modes.len()], via: c12::Via::Ctx, env: c12::EnvSel::One(FloatEnv::Native), transport: 0 };
                for f in c12::C12.execute(&t, &mut obs) {
                    failures += 1;
                    println!("violation: rule={} : {}", f.rule, f.detail);
                    println!("VIOLATION property=C12 replay=(miri slice: trace {})", serde_json::to_string(&t).unwrap());
                }
            }
        }
    } else {
        let ds: [(&str, i64); 12] = [("1", -40), ("123456789", -20), ("-5", -300), ("17", -22), ("17", -23), ("9007199254740993", -3), ("314159265358979323846264338327950288", -100), ("-1", -308), ("2", -309), ("123", 5), ("6", -1), ("99999999999999999999", -10)];
        for (int, scale) in ds.iter() {
            let t = c14::Trace { item: c14::Item::Dec { value: Dec { int: int.to_string(), scale: *scale } }, env: c14::EnvSel::One(FloatEnv::Native), transport: 0 };
            for f in c14::C14.execute(&t, &mut obs) {
                failures += 1;
                println!("violation: rule={} : {}", f.rule, f.detail);
                println!("VIOLATION property=C14 replay=(miri slice: trace {})", serde_json::to_string(&t).unwrap());
            }
        }
        // floats whose decimal has a positive scale (string-parse path). Integers (scale 0) go through
        // num-bigint's BigUint::to_f64 = mantissa * 2.0.powi(k), which Miri also perturbs although a power
        // of two is exact on every real powi; that is not bigdecimal's seam and is left out here.
        for bits in [0x3FB999999999999Au64, 1, 0x000FFFFFFFFFFFFF, 0x3FF8000000000000, 0xBFD5555555555555] {
            let t = c14::Trace { item: c14::Item::F64 { bits }, env: c14::EnvSel::One(FloatEnv::Native), transport: 0 };
            for f in c14::C14.execute(&t, &mut obs) {
                failures += 1;
                println!("violation: rule={} : {}", f.rule, f.detail);
                println!("VIOLATION property=C14 replay=(miri slice: trace {})", serde_json::to_string(&t).unwrap());
            }
        }
    }
    println!("miri_slice {}: executions={} steps={} digest={:016x} failures={}", which, obs.execs, obs.steps, obs.digest, failures);
    std::process::exit(if failures > 0 { 1 } else { 0 });
}
