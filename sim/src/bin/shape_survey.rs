//! One-off survey: does the unchanged crate accept any string that lacks the permissive numeral shape?
use simdec::prng::Rng;
use simdec::refdec::has_numeral_shape;
use std::str::FromStr;
fn main() {
    let alphabet: Vec<char> = "0123456789017+-..eE__x \u{0}٣".chars().collect();
    let mut rng = Rng::from_seed(7);
    let mut bad = 0;
    let mut seen = std::collections::BTreeSet::new();
    let mut accepted = 0u64;
    for n in 0..20_000_000u64 {
        let len = 1 + rng.below(9) as usize;
        let s: String = (0..len).map(|_| *rng.pick(&alphabet)).collect();
        if let Ok(d) = bigdecimal::BigDecimal::from_str(&s) {
            accepted += 1;
            if !has_numeral_shape(&s) {
                bad += 1;
                let cls: String = s.chars().map(|c| if c.is_ascii_digit() { '9' } else { c }).collect::<String>().replace("99", "9").replace("99", "9").replace("99", "9");
                if seen.insert(cls) && seen.len() < 60 {
                    println!("accepted without numeral shape: {:?} -> {:?}", s, d.as_bigint_and_exponent());
                }
            }
        }
        let _ = n;
    }
    println!("accepted {} strings, {} without the permissive shape", accepted, bad);
}
