//! One-off survey of the unchanged tree: (1) does the crate accept any string that lacks the permissive numeral
//! shape? (2) when it accepts a shaped string, is the value the reference reading?
use simdec::prng::Rng;
use simdec::refdec::{has_numeral_shape, parse_numeral_lenient};
use std::str::FromStr;
fn main() {
    let alphabet: Vec<char> = "0123456789017+-..eE__x \u{0}٣".chars().collect();
    let mut rng = Rng::from_seed(std::env::args().nth(1).and_then(|s| s.parse().ok()).unwrap_or(7));
    let (mut shapeless, mut wrong, mut accepted, mut shaped_rejected) = (0u64, 0u64, 0u64, 0u64);
    let mut seen = std::collections::BTreeSet::new();
    for _ in 0..30_000_000u64 {
        let len = 1 + rng.below(10) as usize;
        let s: String = (0..len).map(|_| *rng.pick(&alphabet)).collect();
        let cls = || -> String { s.chars().map(|c| if c.is_ascii_digit() { '9' } else { c }).collect::<String>().replace("99", "9").replace("99", "9").replace("99", "9") };
        match bigdecimal::BigDecimal::from_str(&s) {
            Ok(d) => {
                accepted += 1;
                if !has_numeral_shape(&s) {
                    shapeless += 1;
                    if seen.insert(format!("A{}", cls())) && seen.len() < 40 {
                        println!("accepted without numeral shape: {:?} -> {:?}", s, d.as_bigint_and_exponent());
                    }
                } else {
                    let r = parse_numeral_lenient(&s).unwrap();
                    let (i, sc) = d.as_bigint_and_exponent();
                    if i != r.int || sc as i128 != r.scale {
                        wrong += 1;
                        if seen.insert(format!("W{}", cls())) && seen.len() < 40 {
                            println!("accepted with a different reading: {:?} -> {:?}, reference ({}, {})", s, (i, sc), r.int, r.scale);
                        }
                    }
                }
            }
            Err(_) => {
                if has_numeral_shape(&s) {
                    shaped_rejected += 1;
                    if seen.insert(format!("R{}", cls())) && seen.len() < 40 {
                        println!("shaped but rejected (allowed): {:?}", s);
                    }
                }
            }
        }
    }
    println!("accepted {}, without shape {}, with a different reading {}, shaped-but-rejected {}", accepted, shapeless, wrong, shaped_rejected);
}
