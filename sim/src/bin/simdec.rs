//! CLI used by /verif/check:  simdec <ID> <quick|thorough> | simdec replay <file>
use simdec::framework::{self, Settings, Tier};
use simdec::props;
use std::path::Path;

fn usage() -> ! {
    eprintln!("usage: simdec <C04|C12|C14|C17> <quick|thorough>\n       simdec replay <file>");
    std::process::exit(2)
}

fn main() {
    // panics inside operations under test are caught and judged by the oracles; keep stderr quiet
    if std::env::var_os("VERIF_PANIC_LOUD").is_none() {
        std::panic::set_hook(Box::new(|_| {}));
    }
    let args: Vec<String> = std::env::args().skip(1).collect();
    if args.len() < 2 {
        usage();
    }
    if args[0] == "replay" {
        let path = Path::new(&args[1]);
        let txt = match std::fs::read_to_string(path) {
            Ok(t) => t,
            Err(e) => {
                eprintln!("HARNESS-ERROR: cannot read {}: {}", path.display(), e);
                std::process::exit(2);
            }
        };
        let v: serde_json::Value = match serde_json::from_str(&txt) {
            Ok(v) => v,
            Err(e) => {
                eprintln!("HARNESS-ERROR: {}: {}", path.display(), e);
                std::process::exit(2);
            }
        };
        let st = Settings::from_env(Tier::Quick).unwrap();
        let id = v.get("property").and_then(|x| x.as_str()).unwrap_or("");
        if v.get("interference").is_some() {
            let code = match id {
                "C04" => framework::replay_interference(&props::c04::C04, path, &v),
                "C12" => framework::replay_interference(&props::c12::C12, path, &v),
                "C14" => framework::replay_interference(&props::c14::C14, path, &v),
                "C17" => framework::replay_interference(&props::c17::C17, path, &v),
                _ => 2,
            };
            std::process::exit(code);
        }
        let code = match id {
            "C04" => framework::replay(&props::c04::C04, path, &st.verif_dir),
            "C14" => framework::replay(&props::c14::C14, path, &st.verif_dir),
            "C12" => framework::replay(&props::c12::C12, path, &st.verif_dir),
            "C17" => framework::replay(&props::c17::C17, path, &st.verif_dir),
            _ => {
                eprintln!("HARNESS-ERROR: unknown property {:?} in {}", id, path.display());
                2
            }
        };
        std::process::exit(code);
    }
    if args[0] == "interference" {
        // simdec interference <ID> <quick|thorough> [rounds]
        let tier = if args.len() > 2 && args[2] == "thorough" { Tier::Thorough } else { Tier::Quick };
        let st = Settings::from_env(tier).unwrap();
        let rounds: usize = args.get(3).and_then(|s| s.parse().ok()).unwrap_or(6);
        let code = match args[1].as_str() {
            "C04" => framework::interference(&props::c04::C04, &st, rounds),
            "C12" => framework::interference(&props::c12::C12, &st, rounds),
            "C14" => framework::interference(&props::c14::C14, &st, rounds),
            "C17" => framework::interference(&props::c17::C17, &st, rounds),
            _ => usage(),
        };
        std::process::exit(code);
    }
    if args[0] == "exec-run" {
        // simdec exec-run <ID> <quick|thorough> <run> <replay-path>: write the trace of that run as a replay file,
        // then execute it alone. Used to find which run makes the process die.
        if args.len() < 5 {
            usage();
        }
        let tier = if args[2] == "thorough" { Tier::Thorough } else { Tier::Quick };
        let st = Settings::from_env(tier).unwrap();
        let run: u64 = args[3].parse().unwrap_or(0);
        let path = Path::new(&args[4]);
        let code = match args[1].as_str() {
            "C04" => framework::exec_run(&props::c04::C04, &st, run, path),
            "C12" => framework::exec_run(&props::c12::C12, &st, run, path),
            "C14" => framework::exec_run(&props::c14::C14, &st, run, path),
            "C17" => framework::exec_run(&props::c17::C17, &st, run, path),
            _ => usage(),
        };
        std::process::exit(code);
    }
    let tier = match args[1].as_str() {
        "quick" => Tier::Quick,
        "thorough" => Tier::Thorough,
        _ => usage(),
    };
    let st = match Settings::from_env(tier) {
        Ok(s) => s,
        Err(e) => {
            eprintln!("HARNESS-ERROR: {}", e);
            std::process::exit(2);
        }
    };
    let code = match args[0].as_str() {
        "C04" => framework::run_check(&props::c04::C04, &st),
        "C14" => framework::run_check(&props::c14::C14, &st),
        "C12" => framework::run_check(&props::c12::C12, &st),
        "C17" => framework::run_check(&props::c17::C17, &st),
        _ => usage(),
    };
    std::process::exit(code);
}
