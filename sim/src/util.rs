use std::collections::BTreeMap;
use std::sync::Mutex;

static INTERN: Mutex<BTreeMap<String, &'static str>> = Mutex::new(BTreeMap::new());

thread_local! {
    static LOCAL: std::cell::RefCell<BTreeMap<String, &'static str>> = std::cell::RefCell::new(BTreeMap::new());
}

/// Intern a probe / fault name. The set of names is small and bounded by construction.
pub fn intern(s: &str) -> &'static str {
    LOCAL.with(|l| {
        if let Some(&v) = l.borrow().get(s) {
            return v;
        }
        let v = {
            let mut g = INTERN.lock().unwrap();
            match g.get(s) {
                Some(&v) => v,
                None => {
                    let leaked: &'static str = Box::leak(s.to_string().into_boxed_str());
                    g.insert(s.to_string(), leaked);
                    leaked
                }
            }
        };
        l.borrow_mut().insert(s.to_string(), v);
        v
    })
}

pub fn clip(s: &str, n: usize) -> String {
    let cnt = s.chars().count();
    if cnt <= n {
        s.to_string()
    } else {
        let head = n * 2 / 3;
        let tail = n - head;
        let h: String = s.chars().take(head).collect();
        let t: String = s.chars().skip(cnt - tail).collect();
        format!("{}…[{} chars]…{}", h, cnt, t)
    }
}
