//! Deterministic simulation with fault injection for bigdecimal-rs. See /verif/DESIGN.md.
pub mod env;
pub mod framework;
pub mod gen;
pub mod prng;
pub mod props;
pub mod refdec;
pub mod util;
