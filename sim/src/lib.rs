//! Deterministic simulation with fault injection for bigdecimal-rs. See /verif/DESIGN.md.
pub mod env;
pub mod framework;
pub mod gen;
pub mod prng;
pub mod props;
pub mod refdec;
pub mod util;

/// Tripwire for DESIGN.md §1: the type under test has no interior mutability, so caller threads holding
/// `&BigDecimal` can only read. If this stops compiling, the applicability analysis must be redone.
#[allow(dead_code)]
fn assert_send_sync<T: Send + Sync>() {}
#[allow(dead_code)]
fn tripwire() {
    assert_send_sync::<bigdecimal::BigDecimal>();
    assert_send_sync::<bigdecimal::Context>();
}
