//! Runner, shrinker, known-finding classification, replay and evidence writer shared by all properties.

use crate::prng::{mix, Rng};
use serde::de::DeserializeOwned;
use serde::Serialize;
use serde_json::{json, Value};
use std::collections::{BTreeMap, BTreeSet};
use std::path::{Path, PathBuf};
use std::sync::atomic::{AtomicBool, AtomicU64, Ordering};
use std::sync::Mutex;
use std::time::Instant;

pub const DEFAULT_SEED: u64 = 0xB16DEC;

#[derive(Clone, Copy, Debug, PartialEq, Eq)]
pub enum Tier {
    Quick,
    Thorough,
}
impl Tier {
    pub fn name(self) -> &'static str {
        match self {
            Tier::Quick => "quick",
            Tier::Thorough => "thorough",
        }
    }
}

/// One rule of one property failing on one execution.
#[derive(Clone, Debug)]
pub struct Failure {
    pub rule: &'static str,
    pub detail: String,
    /// facts the known-findings predicates are evaluated on
    pub facts: BTreeMap<String, Value>,
    /// property-specific pointer to the failing (op, env) inside the trace, used by `narrow`
    pub focus: Value,
}

impl Failure {
    pub fn new(rule: &'static str, detail: String) -> Failure {
        Failure { rule, detail, facts: BTreeMap::new(), focus: Value::Null }
    }
    pub fn fact<V: Into<Value>>(mut self, k: &str, v: V) -> Failure {
        self.facts.insert(k.to_string(), v.into());
        self
    }
    pub fn focus(mut self, v: Value) -> Failure {
        self.focus = v;
        self
    }
}

/// Per-run observations (all commutative when summed, so worker count cannot matter)
#[derive(Default, Clone)]
pub struct Obs {
    /// individual executions of code under test (one op under one environment)
    pub execs: u64,
    pub execs_fault_free: u64,
    pub execs_faulted: u64,
    /// logical steps: sink calls + I/O calls + Newton iterations + float-site calls
    pub steps: u64,
    pub faults: BTreeMap<&'static str, u64>,
    pub reach: BTreeMap<&'static str, u64>,
    /// running maxima (margins); merged by max, so also order-independent
    pub maxes: BTreeMap<&'static str, u64>,
    /// signatures of the executions of this run (class of op, value, events, outcome)
    pub sigs: Vec<(u64, bool)>,
    /// digest of everything observable in this run (determinism proof)
    pub digest: u64,
}

impl Obs {
    pub fn fault(&mut self, k: &'static str) {
        *self.faults.entry(k).or_insert(0) += 1;
    }
    pub fn fault_n(&mut self, k: &'static str, n: u64) {
        if n > 0 {
            *self.faults.entry(k).or_insert(0) += n;
        }
    }
    pub fn reach(&mut self, k: &'static str) {
        *self.reach.entry(k).or_insert(0) += 1;
    }
    pub fn reach_n(&mut self, k: &'static str, n: u64) {
        if n > 0 {
            *self.reach.entry(k).or_insert(0) += n;
        }
    }
    pub fn max(&mut self, k: &'static str, v: u64) {
        let e = self.maxes.entry(k).or_insert(0);
        if v > *e {
            *e = v;
        }
    }
    pub fn sig(&mut self, words: &[u64], nontrivial: bool) {
        self.sigs.push((mix(words), nontrivial));
    }
    pub fn digest(&mut self, words: &[u64]) {
        self.digest = mix(&[self.digest, mix(words)]);
    }
    pub fn digest_str(&mut self, s: &str) {
        self.digest = mix(&[self.digest, crate::prng::hash_bytes(s.as_bytes())]);
    }
}

pub trait Property: Sync {
    type Trace: Clone + Serialize + DeserializeOwned + Send + Sync;
    fn id(&self) -> &'static str;
    fn level(&self) -> &'static str;
    fn runs(&self, tier: Tier) -> u64;
    /// Build run `run`. Index ranges may be deterministic enumerations; the rest draw from `rng`.
    fn generate(&self, rng: &mut Rng, tier: Tier, run: u64) -> Self::Trace;
    /// Execute the trace against the real code. Never consults a PRNG or a clock.
    fn execute(&self, t: &Self::Trace, obs: &mut Obs) -> Vec<Failure>;
    /// Restrict the trace to the (op, env) the failure points at
    fn narrow(&self, t: &Self::Trace, f: &Failure) -> Self::Trace;
    /// Simpler traces, most aggressive first
    fn shrink(&self, t: &Self::Trace) -> Vec<Self::Trace>;
    fn rule_text(&self) -> String;
    fn assumptions(&self) -> Vec<String>;
    fn components(&self) -> Value;
    /// probes that must be non-zero for the run to count as having reached what it claims (tier-dependent)
    fn required_reach(&self, tier: Tier) -> Vec<&'static str>;
    fn exhaustive_note(&self, _tier: Tier) -> Option<String> {
        None
    }
    /// Number of leading run indices that are deterministic enumerations. The PRNG stream of a run in the random
    /// part is keyed by its offset *within the random part*, so adding an enumeration later does not reshuffle
    /// every random run (which would silently change which seeded defects a given VERIF_SEED happens to meet).
    fn enumerated_runs(&self, _tier: Tier) -> u64 {
        0
    }
    /// (rule, seconds): every property presupposes that the operation under test returns. If no run
    /// completes for that long while a worker is inside `execute` (generators are excluded), the run in
    /// flight is reported as a violation of that rule, with its trace as the replay file. Runs take
    /// milliseconds; the threshold is minutes. C12, which states termination, uses its own rule name.
    fn stall_is_violation(&self) -> Option<(&'static str, u64)> {
        Some(("R0-operation-returns", 300))
    }
    /// evidence-only extras computed from the aggregated observations
    fn extra_evidence(&self, _agg: &Agg) -> Value {
        Value::Null
    }
}

// ---------------------------------------------------------------- known findings

#[derive(Clone, Debug)]
pub struct KnownFinding {
    pub id: String,
    pub property: String,
    pub rule: String,
    pub when: BTreeMap<String, Value>,
    pub what: String,
    pub replay: Option<String>,
}

pub struct KnownFindings {
    pub entries: Vec<KnownFinding>,
}

impl KnownFindings {
    pub fn load(verif_dir: &Path) -> Result<KnownFindings, String> {
        let p = verif_dir.join("known-findings.json");
        let txt = std::fs::read_to_string(&p).map_err(|e| format!("cannot read {}: {}", p.display(), e))?;
        let v: Value = serde_json::from_str(&txt).map_err(|e| format!("{}: {}", p.display(), e))?;
        let mut entries = vec![];
        for e in v.get("findings").and_then(|x| x.as_array()).cloned().unwrap_or_default() {
            let s = |k: &str| e.get(k).and_then(|x| x.as_str()).map(|x| x.to_string());
            let when = e
                .get("when")
                .and_then(|x| x.as_object())
                .map(|m| m.iter().map(|(k, v)| (k.clone(), v.clone())).collect())
                .unwrap_or_default();
            entries.push(KnownFinding {
                id: s("id").ok_or("finding without id")?,
                property: s("property").ok_or("finding without property")?,
                rule: s("rule").ok_or("finding without rule")?,
                when,
                what: s("what").unwrap_or_default(),
                replay: s("replay"),
            });
        }
        Ok(KnownFindings { entries })
    }
    pub fn empty() -> KnownFindings {
        KnownFindings { entries: vec![] }
    }
    /// index of the first entry covering this failure
    pub fn classify(&self, prop: &str, f: &Failure) -> Option<usize> {
        self.entries.iter().position(|e| {
            e.property == prop && e.rule == f.rule && e.when.iter().all(|(k, v)| f.facts.get(k) == Some(v))
        })
    }
}

// ---------------------------------------------------------------- aggregation

#[derive(Default)]
pub struct Agg {
    pub runs: u64,
    pub execs: u64,
    pub execs_fault_free: u64,
    pub execs_faulted: u64,
    pub steps: u64,
    pub faults: BTreeMap<&'static str, u64>,
    pub reach: BTreeMap<&'static str, u64>,
    pub maxes: BTreeMap<&'static str, u64>,
    pub sigs_all: BTreeSet<u64>,
    pub sigs_nontrivial: BTreeSet<u64>,
    pub digest_sum: u64,
    pub known_hits: BTreeMap<usize, (u64, u64, String)>, // entry -> (count, lowest run, detail of lowest)
    pub unlisted: u64,
    /// failures that vanished when the same trace was executed again immediately
    pub history_dependent: u64,
    pub first_unlisted: Option<(u64, usize)>, // (run index, failure index within run)
    pub unlisted_list: BTreeSet<(u64, usize)>, // the smallest few, in case the first does not reproduce in isolation
    pub per_run_digests: Vec<(u64, u64)>,
    /// VERIF_SURVEY: histogram of unlisted failures by (rule, facts) with one example each
    pub survey: BTreeMap<String, (u64, String)>,
}

impl Agg {
    fn absorb_obs(&mut self, run: u64, o: &Obs, keep_digests: bool) {
        self.runs += 1;
        self.execs += o.execs;
        self.execs_fault_free += o.execs_fault_free;
        self.execs_faulted += o.execs_faulted;
        self.steps += o.steps;
        for (k, v) in &o.faults {
            *self.faults.entry(k).or_insert(0) += v;
        }
        for (k, v) in &o.reach {
            *self.reach.entry(k).or_insert(0) += v;
        }
        for (k, v) in &o.maxes {
            let e = self.maxes.entry(k).or_insert(0);
            *e = (*e).max(*v);
        }
        for &(s, nt) in &o.sigs {
            self.sigs_all.insert(s);
            if nt {
                self.sigs_nontrivial.insert(s);
            }
        }
        let d = mix(&[run, o.digest]);
        self.digest_sum = self.digest_sum.wrapping_add(d);
        if keep_digests {
            self.per_run_digests.push((run, o.digest));
        }
    }
    fn merge(&mut self, o: Agg) {
        self.runs += o.runs;
        self.execs += o.execs;
        self.execs_fault_free += o.execs_fault_free;
        self.execs_faulted += o.execs_faulted;
        self.steps += o.steps;
        for (k, v) in o.faults {
            *self.faults.entry(k).or_insert(0) += v;
        }
        for (k, v) in o.reach {
            *self.reach.entry(k).or_insert(0) += v;
        }
        for (k, v) in o.maxes {
            let e = self.maxes.entry(k).or_insert(0);
            *e = (*e).max(v);
        }
        self.sigs_all.extend(o.sigs_all);
        self.sigs_nontrivial.extend(o.sigs_nontrivial);
        self.digest_sum = self.digest_sum.wrapping_add(o.digest_sum);
        for (k, (c, r, d)) in o.known_hits {
            let e = self.known_hits.entry(k).or_insert((0, u64::MAX, String::new()));
            e.0 += c;
            if r < e.1 {
                e.1 = r;
                e.2 = d;
            }
        }
        self.unlisted += o.unlisted;
        self.history_dependent += o.history_dependent;
        self.first_unlisted = match (self.first_unlisted, o.first_unlisted) {
            (Some(a), Some(b)) => Some(a.min(b)),
            (a, b) => a.or(b),
        };
        self.unlisted_list.extend(o.unlisted_list);
        while self.unlisted_list.len() > 64 {
            let last = *self.unlisted_list.iter().next_back().unwrap();
            self.unlisted_list.remove(&last);
        }
        self.per_run_digests.extend(o.per_run_digests);
        for (k, (c, d)) in o.survey {
            let e = self.survey.entry(k).or_insert((0, d));
            e.0 += c;
        }
    }
}

pub struct Settings {
    pub seed: u64,
    pub tier: Tier,
    pub workers: usize,
    pub verif_dir: PathBuf,
    pub runs_override: Option<u64>,
    pub digest_file: Option<PathBuf>,
    pub write_evidence: bool,
}

impl Settings {
    pub fn from_env(tier: Tier) -> Result<Settings, String> {
        let seed = match std::env::var("VERIF_SEED") {
            Ok(s) if !s.trim().is_empty() => parse_u64(s.trim()).ok_or(format!("VERIF_SEED not an integer: {}", s))?,
            _ => DEFAULT_SEED,
        };
        let tier = match std::env::var("VERIF_TIER").ok().as_deref() {
            Some("quick") => Tier::Quick,
            Some("thorough") => Tier::Thorough,
            _ => tier,
        };
        let workers = std::env::var("VERIF_WORKERS")
            .ok()
            .and_then(|s| s.parse::<usize>().ok())
            .filter(|&n| n > 0)
            .unwrap_or_else(|| std::thread::available_parallelism().map(|n| n.get()).unwrap_or(4));
        let verif_dir = std::env::var("VERIF_DIR").map(PathBuf::from).unwrap_or_else(|_| PathBuf::from("/verif"));
        let runs_override = std::env::var("VERIF_RUNS").ok().and_then(|s| s.parse().ok());
        let digest_file = std::env::var("VERIF_DIGEST_FILE").ok().map(PathBuf::from);
        let write_evidence = std::env::var_os("VERIF_NO_EVIDENCE").is_none();
        Ok(Settings { seed, tier, workers, verif_dir, runs_override, digest_file, write_evidence })
    }
}

pub fn parse_u64(s: &str) -> Option<u64> {
    if let Some(h) = s.strip_prefix("0x").or_else(|| s.strip_prefix("0X")) {
        u64::from_str_radix(h, 16).ok()
    } else {
        s.parse::<u64>().ok().or_else(|| s.parse::<i64>().ok().map(|v| v as u64))
    }
}

fn panic_message(p: &(dyn std::any::Any + Send)) -> String {
    if let Some(s) = p.downcast_ref::<&str>() {
        s.to_string()
    } else if let Some(s) = p.downcast_ref::<String>() {
        s.clone()
    } else {
        "non-string panic payload".to_string()
    }
}

/// Run a closure and turn a panic into Err(message). The global panic hook is silenced by `main`.
pub fn catch<R>(f: impl FnOnce() -> R) -> Result<R, String> {
    std::panic::catch_unwind(std::panic::AssertUnwindSafe(f)).map_err(|p| panic_message(&*p))
}

/// Like `catch` but hands back the payload (used to recognise the simulated watchdog)
pub fn catch_payload<R>(f: impl FnOnce() -> R) -> Result<R, Box<dyn std::any::Any + Send>> {
    std::panic::catch_unwind(std::panic::AssertUnwindSafe(f))
}

pub fn payload_message(p: &(dyn std::any::Any + Send)) -> String {
    panic_message(p)
}

/// The PRNG of run `run`: enumerated runs by index, random runs by their offset in the random part.
pub fn rng_for<P: Property>(p: &P, seed: u64, tier: Tier, run: u64) -> Rng {
    let g = p.enumerated_runs(tier);
    if run < g {
        Rng::for_run(seed, p.id(), run)
    } else {
        Rng::for_run(seed ^ 0x5EED_0F_7A4D_0A47, p.id(), run - g)
    }
}

pub struct BatchResult {
    pub exit_code: i32,
}

/// Execute the whole batch for one property and report. Returns the process exit code.
pub fn run_check<P: Property>(p: &P, st: &Settings) -> i32 {
    let t0 = Instant::now();
    let id = p.id();
    let known = match KnownFindings::load(&st.verif_dir) {
        Ok(k) => k,
        Err(e) => {
            eprintln!("HARNESS-ERROR: {}", e);
            return 2;
        }
    };
    println!("check {} tier={} VERIF_SEED={} workers={}", id, st.tier.name(), st.seed, st.workers);

    // 1. listed findings: re-execute each one's committed replay file
    let mut known_lines: Vec<String> = vec![];
    let mut known_stale: Vec<String> = vec![];
    for (i, e) in known.entries.iter().enumerate() {
        if e.property != id {
            continue;
        }
        if let Some(rp) = &e.replay {
            let path = st.verif_dir.join(rp);
            match load_replay::<P>(&path) {
                Ok((trace, _)) => {
                    let mut obs = Obs::default();
                    let fails = match catch(|| p.execute(&trace, &mut obs)) {
                        Ok(f) => f,
                        Err(m) => {
                            eprintln!("HARNESS-ERROR: executing {} panicked outside an operation boundary: {}", path.display(), m);
                            return 2;
                        }
                    };
                    if fails.iter().any(|f| known.classify(id, f) == Some(i)) {
                        known_lines.push(format!("KNOWN-FINDING: property={} {} [{}; replay={}]", id, e.what, e.id, rp));
                    } else {
                        known_stale.push(format!("note: listed finding {} no longer reproduces from {}", e.id, rp));
                    }
                }
                Err(m) => {
                    eprintln!("HARNESS-ERROR: {}", m);
                    return 2;
                }
            }
        }
    }

    // 2. the batch
    let n = st.runs_override.unwrap_or_else(|| p.runs(st.tier));
    let next = AtomicU64::new(0);
    let stop = AtomicBool::new(false);
    let harness_err: Mutex<Option<String>> = Mutex::new(None);
    let keep_digests = st.digest_file.is_some();
    let sample_idx: BTreeSet<u64> = [0u64, 1, 2, n / 3, n / 2, n.saturating_sub(1)].into_iter().filter(|&i| i < n).collect();
    let samples: Mutex<BTreeMap<u64, Value>> = Mutex::new(BTreeMap::new());
    let chunk = 16u64;
    let survey = std::env::var_os("VERIF_SURVEY").is_some();
    let careful_dir: Option<PathBuf> = std::env::var_os("VERIF_CAREFUL_DIR").map(PathBuf::from);

    // harness stall guard: a run that makes no progress for 10 minutes is a harness error (exit 2),
    // never a verdict. (Code under test that fails to terminate is caught by the simulated step
    // clock long before; this only protects against bugs in generators and oracles.)
    let completed = AtomicU64::new(0);
    let finished = AtomicBool::new(false);
    let in_flight: Vec<AtomicU64> = (0..st.workers).map(|_| AtomicU64::new(u64::MAX)).collect();
    let executing: Vec<AtomicBool> = (0..st.workers).map(|_| AtomicBool::new(false)).collect();
    let worker_ids = AtomicU64::new(0);
    let aggs: Vec<Agg> = std::thread::scope(|sc| {
        sc.spawn(|| {
            let mut last = 0u64;
            let mut idle = 0u64;
            let limit_halfsecs = match p.stall_is_violation() {
                Some((_, secs)) => secs * 2,
                None => 1200,
            };
            while !finished.load(Ordering::Relaxed) {
                std::thread::sleep(std::time::Duration::from_millis(500));
                let c = completed.load(Ordering::Relaxed);
                if c != last {
                    last = c;
                    idle = 0;
                } else {
                    idle += 1;
                    if idle > limit_halfsecs {
                        // only workers that are inside `execute` count: a stuck generator is a harness error
                        let stuck = in_flight.iter().zip(executing.iter()).filter(|(_, e)| e.load(Ordering::Relaxed)).map(|(a, _)| a.load(Ordering::Relaxed)).min().unwrap_or(u64::MAX);
                        if let (Some((rule, secs)), true) = (p.stall_is_violation(), stuck != u64::MAX) {
                            // the trace is a pure function of (seed, run): write the replay file without executing it
                            let mut rng = rng_for(p, st.seed, st.tier, stuck);
                            let trace = p.generate(&mut rng, st.tier, stuck);
                            let dir = st.verif_dir.join("replays");
                            let _ = std::fs::create_dir_all(&dir);
                            let path = dir.join(format!("{}-{}-seed{}-run{}.json", id, rule, st.seed, stuck));
                            let doc = json!({"property": id, "rule": rule, "verif_seed": st.seed, "run": stuck, "tier": st.tier.name(),
                                "trace": serde_json::to_value(&trace).unwrap_or(Value::Null),
                                "detail": format!("no execution completed for {} s of wall clock while run {} was in flight: the code under test does not return (outside the loop the simulated step clock watches); not minimised", secs, stuck),
                                "repo_head": repo_head()});
                            let _ = std::fs::write(&path, serde_json::to_string_pretty(&doc).unwrap());
                            println!("violation: rule={} run={} : no progress for {} s; the operation under test does not return", rule, stuck, secs);
                            println!("VIOLATION property={} replay={}", id, path.display());
                            std::process::exit(1);
                        }
                        eprintln!("HARNESS-ERROR: no run completed for {} s (about {} of {} done): a generator or oracle is stuck", limit_halfsecs / 2, c, n);
                        std::process::exit(2);
                    }
                }
            }
        });
        let handles: Vec<_> = (0..st.workers)
            .map(|_| {
                sc.spawn(|| {
                    let mut agg = Agg::default();
                    let me = worker_ids.fetch_add(1, Ordering::Relaxed) as usize % in_flight.len();
                    loop {
                        if stop.load(Ordering::Relaxed) {
                            break;
                        }
                        let start = next.fetch_add(chunk, Ordering::Relaxed);
                        if start >= n {
                            break;
                        }
                        for run in start..(start + chunk).min(n) {
                            in_flight[me].store(run, Ordering::Relaxed);
                            if let Some(dir) = &careful_dir {
                                // careful mode (after the process died once): leave a trail on disk so that the
                                // run in flight when the process dies can be identified
                                let _ = std::fs::write(dir.join(format!("w{}", me)), format!("{}\n", run));
                            }
                            let mut rng = rng_for(p, st.seed, st.tier, run);
                            let r = catch(|| {
                                let trace = p.generate(&mut rng, st.tier, run);
                                executing[me].store(true, Ordering::Relaxed);
                                let mut obs = Obs::default();
                                let fails = p.execute(&trace, &mut obs);
                                executing[me].store(false, Ordering::Relaxed);
                                (trace, obs, fails)
                            });
                            executing[me].store(false, Ordering::Relaxed);
                            let (trace, obs, fails) = match r {
                                Ok(x) => x,
                                Err(m) => {
                                    let mut g = harness_err.lock().unwrap();
                                    if g.is_none() {
                                        *g = Some(format!("run {} panicked outside an operation boundary: {}", run, m));
                                    }
                                    stop.store(true, Ordering::Relaxed);
                                    break;
                                }
                            };
                            agg.absorb_obs(run, &obs, keep_digests);
                            in_flight[me].store(u64::MAX, Ordering::Relaxed);
                            completed.fetch_add(1, Ordering::Relaxed);
                            if sample_idx.contains(&run) {
                                let v = json!({"run": run, "trace": serde_json::to_value(&trace).unwrap_or(Value::Null),
                                    "executions": obs.execs, "steps": obs.steps, "failures": fails.len()});
                                samples.lock().unwrap().insert(run, v);
                            }
                            // An unlisted failure must reproduce when the same trace is executed again at once; if it does
                            // not, it depended on what this thread executed before (state carried across operations by the
                            // code under test): it is counted, and the batch goes on looking for a failure that replays.
                            let mut fails = fails;
                            if !survey && fails.iter().any(|f| known.classify(id, f).is_none()) {
                                let mut obs2 = Obs::default();
                                let again = catch(|| p.execute(&trace, &mut obs2)).unwrap_or_default();
                                if !again.iter().any(|f| known.classify(id, f).is_none()) {
                                    agg.history_dependent += fails.iter().filter(|f| known.classify(id, f).is_none()).count() as u64;
                                    fails.retain(|f| known.classify(id, f).is_some());
                                }
                            }
                            for (fi, f) in fails.iter().enumerate() {
                                match known.classify(id, f) {
                                    Some(k) => {
                                        let e = agg.known_hits.entry(k).or_insert((0, u64::MAX, String::new()));
                                        e.0 += 1;
                                        if run < e.1 {
                                            e.1 = run;
                                            e.2 = f.detail.clone();
                                        }
                                    }
                                    None => {
                                        agg.unlisted += 1;
                                        if survey {
                                            let mut facts = f.facts.clone();
                                            facts.remove("env");
                                            let key = format!("{} {}", f.rule, serde_json::to_string(&facts).unwrap_or_default());
                                            let e = agg.survey.entry(key).or_insert((0, f.detail.clone()));
                                            e.0 += 1;
                                        } else {
                                            let cand = (run, fi);
                                            agg.first_unlisted = Some(agg.first_unlisted.map_or(cand, |c| c.min(cand)));
                                            if agg.unlisted_list.len() < 64 {
                                                agg.unlisted_list.insert(cand);
                                            }
                                            stop.store(true, Ordering::Relaxed);
                                        }
                                    }
                                }
                            }
                        }
                    }
                    agg
                })
            })
            .collect();
        let out = handles.into_iter().map(|h| h.join().expect("worker thread")).collect();
        finished.store(true, Ordering::Relaxed);
        out
    });
    if let Some(m) = harness_err.lock().unwrap().take() {
        eprintln!("HARNESS-ERROR: {}", m);
        return 2;
    }
    let mut agg = Agg::default();
    for a in aggs {
        agg.merge(a);
    }

    if survey {
        println!("SURVEY (not a verdict): {} unlisted failures in {} runs", agg.unlisted, agg.runs);
        for (k, (c, d)) in &agg.survey {
            println!("  {:>8}  {}\n            e.g. {}", c, k, d);
        }
        return 0;
    }

    // 3. determinism log
    if let Some(df) = &st.digest_file {
        agg.per_run_digests.sort();
        let mut s = String::new();
        for (r, d) in &agg.per_run_digests {
            s.push_str(&format!("{} {:016x}\n", r, d));
        }
        if let Err(e) = std::fs::write(df, s) {
            eprintln!("HARNESS-ERROR: cannot write {}: {}", df.display(), e);
            return 2;
        }
    }

    // 4. violation: minimise, write replay
    let mut exit = 0;
    let mut violation_info = Value::Null;
    if agg.first_unlisted.is_some() {
        // Re-execute in isolation. A failure that does not reproduce on its own depends on what the same thread
        // executed before it - state carried across operations by the code under test (the harness keeps none: see
        // the determinism proof) - so the next candidates are tried; the one reported must replay from its file.
        let mut chosen = None;
        let mut skipped = 0usize;
        for &(run, fi) in agg.unlisted_list.iter() {
            let mut rng = rng_for(p, st.seed, st.tier, run);
            let trace = p.generate(&mut rng, st.tier, run);
            let mut obs = Obs::default();
            let fails = match catch(|| p.execute(&trace, &mut obs)) {
                Ok(f) => f,
                Err(_) => vec![],
            };
            if let Some(f) = fails.iter().find(|f| known.classify(id, f).is_none()) {
                let _ = fi;
                chosen = Some((run, trace, f.clone()));
                break;
            }
            skipped += 1;
        }
        let (run, trace, f0) = match chosen {
            Some(x) => x,
            None => {
                eprintln!("note: {} failing run(s) were observed in the batch but none reproduces when re-executed alone (exit 3): the outcome depends on execution history or on other threads", skipped);
                return 3;
            }
        };
        if skipped > 0 {
            println!("note: {} earlier failing run(s) did not reproduce in isolation (history-dependent); reporting the first that does", skipped);
        }
        let (min_trace, min_fail, shrink_execs) = minimise(p, &known, &trace, &f0);
        let dir = st.verif_dir.join("replays");
        let _ = std::fs::create_dir_all(&dir);
        let path = dir.join(format!("{}-{}-seed{}-run{}.json", id, f0.rule, st.seed, run));
        let doc = json!({
            "property": id, "rule": min_fail.rule, "verif_seed": st.seed, "run": run, "tier": st.tier.name(),
            "trace": serde_json::to_value(&min_trace).unwrap_or(Value::Null),
            "detail": min_fail.detail, "facts": min_fail.facts,
            "original_trace": serde_json::to_value(&p.narrow(&trace, &f0)).unwrap_or(Value::Null),
            "shrink_executions": shrink_execs, "repo_head": repo_head(),
        });
        if let Err(e) = std::fs::write(&path, serde_json::to_string_pretty(&doc).unwrap()) {
            eprintln!("HARNESS-ERROR: cannot write {}: {}", path.display(), e);
            return 2;
        }
        println!("violation: rule={} run={} : {}", min_fail.rule, run, min_fail.detail);
        println!("VIOLATION property={} replay={}", id, path.display());
        violation_info = json!({"rule": min_fail.rule, "run": run, "detail": min_fail.detail, "replay": path.display().to_string()});
        exit = 1;
    }

    for l in &known_lines {
        println!("{}", l);
    }
    for l in &known_stale {
        println!("{}", l);
    }
    for (k, (c, r, d)) in &agg.known_hits {
        println!("  known finding {} hit {} times in this batch (first at run {}: {})", known.entries[*k].id, c, r, d);
    }

    if agg.history_dependent > 0 {
        println!("note: {} failure(s) did not recur when their trace was executed again at once: the outcome depended on what the thread had executed before (state carried across operations)", agg.history_dependent);
        if exit == 0 {
            eprintln!("note: only history-dependent failures were observed in the batch (exit 3): the caller runs the interference pass to see whether other threads are the cause");
            return 3;
        }
    }

    // 5. reach self-check (harness quality, not a verdict). Only meaningful on a full batch.
    let mut missing: Vec<&str> = vec![];
    if exit == 0 && st.runs_override.is_none() {
        for k in p.required_reach(st.tier) {
            let hit = agg.reach.get(k).copied().unwrap_or(0) + agg.faults.get(k).copied().unwrap_or(0);
            if hit == 0 {
                missing.push(k);
            }
        }
    }

    // 6. evidence
    let wall = t0.elapsed().as_secs_f64();
    if st.write_evidence {
        let samples_v: Vec<Value> = samples.lock().unwrap().values().cloned().collect();
        let known_v: Vec<Value> = agg
            .known_hits
            .iter()
            .map(|(k, (c, r, _))| json!({"id": known.entries[*k].id, "hits": c, "first_run": r}))
            .collect();
        let mut coverage = json!({
            "evaluations": agg.runs,
            "distinct_nontrivial": agg.sigs_nontrivial.len(),
            "rule": p.rule_text(),
            "samples": samples_v,
            "executions": agg.execs,
            "fault_free_executions": agg.execs_fault_free,
            "faulted_executions": agg.execs_faulted,
            "distinct_signatures_all": agg.sigs_all.len(),
            "faults_fired": agg.faults,
            "reach": agg.reach,
            "maxima": agg.maxes,
            "simulated_time": format!("no clock exists in the system under test; logical steps (sink calls + I/O calls + Newton iterations + float-site calls) = {}", agg.steps),
            "logical_steps": agg.steps,
            "runs_per_hour": if wall > 0.0 { (agg.runs as f64 / wall * 3600.0) as u64 } else { 0 },
            "executions_per_hour": if wall > 0.0 { (agg.execs as f64 / wall * 3600.0) as u64 } else { 0 },
            "components": p.components(),
            "batch_digest": format!("{:016x}", agg.digest_sum),
            "known_findings_hit": known_v,
            "reach_probes_missing": missing,
            "workers": st.workers,
        });
        if let Some(note) = p.exhaustive_note(st.tier) {
            coverage["exhaustive_subspace"] = Value::String(note);
        }
        let extra = p.extra_evidence(&agg);
        if !extra.is_null() {
            coverage["extra"] = extra;
        }
        if !violation_info.is_null() {
            coverage["violation"] = violation_info;
        }
        let ev = json!({
            "property_id": id, "tier": st.tier.name(), "seed": st.seed, "level": p.level(),
            "coverage": coverage, "assumptions": p.assumptions(), "wall_s": wall,
            "violations": if exit == 1 { agg.unlisted.max(1) } else { 0 },
        });
        let dir = st.verif_dir.join("evidence");
        let _ = std::fs::create_dir_all(&dir);
        let path = dir.join(format!("{}.json", id));
        if let Err(e) = std::fs::write(&path, serde_json::to_string_pretty(&ev).unwrap() + "\n") {
            eprintln!("HARNESS-ERROR: cannot write {}: {}", path.display(), e);
            return 2;
        }
    }
    println!(
        "{} {}: runs={} executions={} (fault-free {} / faulted {}) distinct_nontrivial={} steps={} wall={:.1}s digest={:016x}",
        id,
        st.tier.name(),
        agg.runs,
        agg.execs,
        agg.execs_fault_free,
        agg.execs_faulted,
        agg.sigs_nontrivial.len(),
        agg.steps,
        wall,
        agg.digest_sum
    );
    if exit == 0 && !missing.is_empty() {
        eprintln!("HARNESS-ERROR: reach probes stuck at zero: {:?} (the workload no longer reaches what the check claims)", missing);
        return 2;
    }
    if exit == 0 {
        println!("OK property={} held on everything explored", id);
    }
    exit
}

/// Greedy delta loop. Invariant: same rule fails and the failure is not covered by a listed finding.
pub fn minimise<P: Property>(p: &P, known: &KnownFindings, trace: &P::Trace, f0: &Failure) -> (P::Trace, Failure, u64) {
    let id = p.id();
    let mut cur = p.narrow(trace, f0);
    let mut cur_fail = f0.clone();
    let mut execs = 0u64;
    let same = |t: &P::Trace, execs: &mut u64| -> Option<Failure> {
        *execs += 1;
        let mut obs = Obs::default();
        let fails = catch(|| p.execute(t, &mut obs)).ok()?;
        fails.into_iter().find(|f| f.rule == f0.rule && known.classify(id, f).is_none())
    };
    // the narrowed trace must still fail; otherwise keep the original
    match same(&cur, &mut execs) {
        Some(f) => cur_fail = f,
        None => {
            cur = trace.clone();
        }
    }
    let budget = 2000u64;
    'outer: loop {
        if execs >= budget {
            break;
        }
        // (a panic while proposing simpler traces must not take the report down with it)
        for cand in catch(|| p.shrink(&cur)).unwrap_or_default() {
            if execs >= budget {
                break 'outer;
            }
            if let Some(f) = same(&cand, &mut execs) {
                cur = cand;
                cur_fail = f;
                continue 'outer;
            }
        }
        break;
    }
    (cur, cur_fail, execs)
}

pub fn load_replay<P: Property>(path: &Path) -> Result<(P::Trace, Value), String> {
    let txt = std::fs::read_to_string(path).map_err(|e| format!("cannot read {}: {}", path.display(), e))?;
    let v: Value = serde_json::from_str(&txt).map_err(|e| format!("{}: {}", path.display(), e))?;
    let t = v.get("trace").cloned().ok_or_else(|| format!("{}: no trace", path.display()))?;
    let trace: P::Trace = serde_json::from_value(t).map_err(|e| format!("{}: trace does not decode: {}", path.display(), e))?;
    Ok((trace, v))
}

/// `check replay <file>`: re-execute a replay file; exit 1 + VIOLATION line if it still fails
/// (an entry covered by a listed finding prints KNOWN-FINDING and exits 0).
pub fn replay<P: Property>(p: &P, path: &Path, verif_dir: &Path) -> i32 {
    let known = KnownFindings::load(verif_dir).unwrap_or_else(|_| KnownFindings::empty());
    let (trace, doc) = match load_replay::<P>(path) {
        Ok(x) => x,
        Err(m) => {
            eprintln!("HARNESS-ERROR: {}", m);
            return 2;
        }
    };
    let want_rule = doc.get("rule").and_then(|x| x.as_str()).unwrap_or("").to_string();
    if let Some((rule, secs)) = p.stall_is_violation() {
        // guard the re-execution: if it does not return, that *is* the violation
        let done = AtomicBool::new(false);
        let pid = p.id();
        let shown = path.display().to_string();
        std::thread::scope(|sc| {
            sc.spawn(|| {
                let mut waited = 0u64;
                while !done.load(Ordering::Relaxed) {
                    std::thread::sleep(std::time::Duration::from_millis(500));
                    waited += 1;
                    if waited > secs * 2 {
                        println!("violation: rule={} : the operation under test did not return within {} s", rule, secs);
                        println!("VIOLATION property={} replay={}", pid, shown);
                        std::process::exit(1);
                    }
                }
            });
            let mut obs = Obs::default();
            let _ = catch(|| p.execute(&trace, &mut obs));
            done.store(true, Ordering::Relaxed);
        });
    }
    let mut obs = Obs::default();
    let fails = match catch(|| p.execute(&trace, &mut obs)) {
        Ok(f) => f,
        Err(m) => {
            eprintln!("HARNESS-ERROR: replay panicked outside an operation boundary: {}", m);
            return 2;
        }
    };
    println!("replay {}: executions={} steps={} digest={:016x}", path.display(), obs.execs, obs.steps, obs.digest);
    let mut code = 0;
    let mut printed = false;
    for f in &fails {
        match known.classify(p.id(), f) {
            Some(k) => println!("KNOWN-FINDING: property={} {} [{}]", p.id(), known.entries[k].what, known.entries[k].id),
            None => {
                println!("violation: rule={} : {}", f.rule, f.detail);
                if !printed {
                    println!("VIOLATION property={} replay={}", p.id(), path.display());
                    printed = true;
                }
                code = 1;
            }
        }
    }
    if fails.is_empty() {
        println!("replay does not reproduce: no rule fails on this tree (rule recorded in the file: {})", want_rule);
    }
    code
}

pub fn repo_head() -> String {
    let repo = std::env::var("VERIF_REPO").unwrap_or_else(|_| "/repo".to_string());
    let out = std::process::Command::new("git").args(["-C", &repo, "rev-parse", "--short", "HEAD"]).output();
    let head = match out {
        Ok(o) if o.status.success() => String::from_utf8_lossy(&o.stdout).trim().to_string(),
        _ => "unknown".to_string(),
    };
    let dirty = std::process::Command::new("git")
        .args(["-C", &repo, "status", "--porcelain", "--untracked-files=no"])
        .output()
        .map(|o| !o.stdout.is_empty())
        .unwrap_or(false);
    format!("{}{}", head, if dirty { "+dirty" } else { "" })
}

/// Write run `run`'s trace to `path` as a replay file (rule R0-process-survives), then execute it alone.
/// If the code under test kills the process, the file is already there for the caller to report.
pub fn exec_run<P: Property>(p: &P, st: &Settings, run: u64, path: &Path) -> i32 {
    let id = p.id();
    let mut rng = rng_for(p, st.seed, st.tier, run);
    let trace = p.generate(&mut rng, st.tier, run);
    let doc = json!({"property": id, "rule": "R0-process-survives", "verif_seed": st.seed, "run": run, "tier": st.tier.name(),
        "trace": serde_json::to_value(&trace).unwrap_or(Value::Null),
        "detail": "executing this trace makes the process die (abort / signal: allocation failure, stack overflow, ...) inside the code under test; not minimised",
        "repo_head": repo_head()});
    if let Err(e) = std::fs::write(path, serde_json::to_string_pretty(&doc).unwrap()) {
        eprintln!("HARNESS-ERROR: cannot write {}: {}", path.display(), e);
        return 2;
    }
    let mut obs = Obs::default();
    let fails = match catch(|| p.execute(&trace, &mut obs)) {
        Ok(f) => f,
        Err(m) => {
            eprintln!("HARNESS-ERROR: run {} panicked outside an operation boundary: {}", run, m);
            return 2;
        }
    };
    println!("exec-run {} run {}: executions={} failures={}", id, run, obs.execs, fails.len());
    0
}

// ---------------------------------------------------------------- interference pass (real threads)

/// The crate under test has no shared mutable state (DESIGN.md section 1), so every operation is a function of
/// its operands alone. This pass is a tripwire for a change that breaks that: K traces spread over the batch
/// are executed by T real threads at once - all threads start on the same trace behind a barrier, so that a
/// first-use initialisation race is exercised too, then each walks the list in its own rotation - and every
/// per-trace digest (everything observable) and every verdict is compared with a later single-threaded
/// execution. It is NOT a deterministic schedule: the interleaving is the operating system's. On a tree without
/// shared state it cannot fail; when it fails, the replay file re-runs the same concurrent workload, which
/// reproduces the interference with high probability, not with certainty.
pub fn interference<P: Property>(p: &P, st: &Settings, rounds: usize) -> i32 {
    let id = p.id();
    let n = p.runs(st.tier);
    let k = 48u64.min(n);
    let idx: Vec<u64> = (0..k).map(|i| i * (n / k)).collect();
    let traces: Vec<P::Trace> = idx.iter().map(|&r| p.generate(&mut rng_for(p, st.seed, st.tier, r), st.tier, r)).collect();
    match interference_on(p, &traces, st.workers.max(2), rounds) {
        None => {
            println!("interference {}: {} traces x {} threads x {} rounds: every result independent of the other threads", id, traces.len(), st.workers.max(2), rounds);
            0
        }
        Some((which, detail)) => {
            let dir = st.verif_dir.join("replays");
            let _ = std::fs::create_dir_all(&dir);
            let path = dir.join(format!("{}-R0-independent-of-other-threads-seed{}.json", id, st.seed));
            let doc = json!({"property": id, "rule": "R0-independent-of-other-threads", "verif_seed": st.seed, "tier": st.tier.name(),
                "interference": {"threads": st.workers.max(2), "rounds": rounds, "first_difference_at_trace": which,
                                 "traces": traces.iter().map(|t| serde_json::to_value(t).unwrap_or(Value::Null)).collect::<Vec<_>>()},
                "trace": serde_json::to_value(&traces[which]).unwrap_or(Value::Null),
                "detail": detail, "repo_head": repo_head()});
            let _ = std::fs::write(&path, serde_json::to_string_pretty(&doc).unwrap());
            println!("violation: rule=R0-independent-of-other-threads : {}", detail);
            println!("VIOLATION property={} replay={}", id, path.display());
            1
        }
    }
}

fn interference_on<P: Property>(p: &P, traces: &[P::Trace], threads: usize, rounds: usize) -> Option<(usize, String)> {
    let known = KnownFindings::empty();
    let _ = &known;
    let summarise = |t: &P::Trace| -> (u64, Vec<&'static str>) {
        let mut obs = Obs::default();
        let fails = catch(|| p.execute(t, &mut obs)).unwrap_or_default();
        (obs.digest, fails.iter().map(|f| f.rule).collect())
    };
    // concurrent first (so that first-use races are inside the window), sequential reference afterwards
    let barrier = std::sync::Barrier::new(threads);
    let results: Vec<Vec<Vec<(u64, Vec<&'static str>)>>> = std::thread::scope(|sc| {
        let hs: Vec<_> = (0..threads)
            .map(|j| {
                let barrier = &barrier;
                sc.spawn(move || {
                    let mut per_round = vec![];
                    for r in 0..rounds {
                        barrier.wait();
                        let mut out = vec![(0u64, vec![]); traces.len()];
                        // round 0: everybody starts on trace 0; afterwards each thread has its own rotation
                        let rot = if r == 0 { 0 } else { (j * 7 + r * 3) % traces.len() };
                        for s in 0..traces.len() {
                            let i = (s + rot) % traces.len();
                            out[i] = summarise(&traces[i]);
                        }
                        per_round.push(out);
                    }
                    per_round
                })
            })
            .collect();
        hs.into_iter().map(|h| h.join().expect("interference thread")).collect()
    });
    let reference: Vec<(u64, Vec<&'static str>)> = traces.iter().map(|t| summarise(t)).collect();
    for (j, per_round) in results.iter().enumerate() {
        for (r, out) in per_round.iter().enumerate() {
            for (i, got) in out.iter().enumerate() {
                if *got != reference[i] {
                    return Some((i, format!("trace {} executed on thread {} (round {}) while {} other threads were running gave digest {:016x} / rules {:?}, but {:016x} / {:?} when executed alone afterwards: the result depends on what other threads do (shared mutable state in the code under test)", i, j, r, threads - 1, got.0, got.1, reference[i].0, reference[i].1)));
                }
            }
        }
    }
    None
}

/// Replay of an interference file: the same traces, threads and (at least 50) rounds.
pub fn replay_interference<P: Property>(p: &P, path: &Path, doc: &Value) -> i32 {
    let inter = &doc["interference"];
    let traces: Vec<P::Trace> = match inter["traces"].as_array() {
        Some(a) => a.iter().filter_map(|v| serde_json::from_value(v.clone()).ok()).collect(),
        None => vec![],
    };
    if traces.is_empty() {
        eprintln!("HARNESS-ERROR: {}: no traces in the interference section", path.display());
        return 2;
    }
    let threads = inter["threads"].as_u64().unwrap_or(16) as usize;
    let rounds = (inter["rounds"].as_u64().unwrap_or(8) as usize).max(50);
    match interference_on(p, &traces, threads, rounds) {
        Some((_, detail)) => {
            println!("violation: rule=R0-independent-of-other-threads : {}", detail);
            println!("VIOLATION property={} replay={}", p.id(), path.display());
            1
        }
        None => {
            println!("replay does not reproduce: {} traces x {} threads x {} rounds all independent of the other threads (real threads: reproduction of an interference is likely, not certain)", traces.len(), threads, rounds);
            0
        }
    }
}
