//! In-tree PRNG: SplitMix64 for stream derivation, xoshiro256** for draws.
//! No dependency, so replay can never drift with a crate upgrade.

#[inline]
pub fn splitmix64(state: &mut u64) -> u64 {
    *state = state.wrapping_add(0x9E37_79B9_7F4A_7C15);
    let mut z = *state;
    z = (z ^ (z >> 30)).wrapping_mul(0xBF58_476D_1CE4_E5B9);
    z = (z ^ (z >> 27)).wrapping_mul(0x94D0_49BB_1331_11EB);
    z ^ (z >> 31)
}

/// 64-bit mix of several words (used for stream derivation and signatures)
pub fn mix(words: &[u64]) -> u64 {
    let mut s = 0x243F_6A88_85A3_08D3u64;
    let mut out = 0u64;
    for &w in words {
        s ^= w;
        out = splitmix64(&mut s) ^ out.rotate_left(23);
    }
    splitmix64(&mut s) ^ out
}

pub fn hash_bytes(b: &[u8]) -> u64 {
    // FNV-1a 64 followed by a finaliser; stable across platforms and versions
    let mut h = 0xcbf2_9ce4_8422_2325u64;
    for &x in b {
        h ^= x as u64;
        h = h.wrapping_mul(0x0000_0100_0000_01B3);
    }
    let mut s = h;
    splitmix64(&mut s)
}

#[derive(Clone, Debug)]
pub struct Rng {
    s: [u64; 4],
}

impl Rng {
    pub fn from_seed(seed: u64) -> Rng {
        let mut sm = seed;
        let mut s = [0u64; 4];
        for w in s.iter_mut() {
            *w = splitmix64(&mut sm);
        }
        if s == [0; 4] {
            s[0] = 1;
        }
        Rng { s }
    }

    /// The stream for run `run` of property `prop` under `seed`
    pub fn for_run(seed: u64, prop: &str, run: u64) -> Rng {
        Rng::from_seed(mix(&[seed, hash_bytes(prop.as_bytes()), run]))
    }

    #[inline]
    pub fn next_u64(&mut self) -> u64 {
        let result = self.s[1].wrapping_mul(5).rotate_left(7).wrapping_mul(9);
        let t = self.s[1] << 17;
        self.s[2] ^= self.s[0];
        self.s[3] ^= self.s[1];
        self.s[1] ^= self.s[2];
        self.s[0] ^= self.s[3];
        self.s[2] ^= t;
        self.s[3] = self.s[3].rotate_left(45);
        result
    }

    /// uniform in 0..n (n > 0); modulo bias is irrelevant here
    #[inline]
    pub fn below(&mut self, n: u64) -> u64 {
        debug_assert!(n > 0);
        ((self.next_u64() as u128 * n as u128) >> 64) as u64
    }

    /// uniform in lo..=hi
    pub fn range(&mut self, lo: i64, hi: i64) -> i64 {
        debug_assert!(lo <= hi);
        let span = (hi as i128 - lo as i128 + 1) as u128;
        let r = (self.next_u64() as u128 * span) >> 64;
        (lo as i128 + r as i128) as i64
    }

    pub fn urange(&mut self, lo: u64, hi: u64) -> u64 {
        debug_assert!(lo <= hi);
        if lo == 0 && hi == u64::MAX {
            return self.next_u64();
        }
        lo + self.below(hi - lo + 1)
    }

    /// true with probability num/den
    pub fn chance(&mut self, num: u64, den: u64) -> bool {
        self.below(den) < num
    }

    pub fn pick<'a, T>(&mut self, xs: &'a [T]) -> &'a T {
        &xs[self.below(xs.len() as u64) as usize]
    }

    /// index drawn according to integer weights
    pub fn weighted(&mut self, weights: &[u32]) -> usize {
        let total: u64 = weights.iter().map(|&w| w as u64).sum();
        let mut r = self.below(total.max(1));
        for (i, &w) in weights.iter().enumerate() {
            if r < w as u64 {
                return i;
            }
            r -= w as u64;
        }
        weights.len() - 1
    }

    /// log-uniform-ish integer in 1..=max: pick a bit width, then a value
    pub fn log_range(&mut self, max: u64) -> u64 {
        debug_assert!(max >= 1);
        let bits = 64 - max.leading_zeros() as u64;
        let b = 1 + self.below(bits);
        let hi = if b >= 64 { u64::MAX } else { (1u64 << b) - 1 };
        let lo = 1u64 << (b - 1);
        self.urange(lo, hi.min(max).max(lo)).min(max)
    }
}

#[cfg(test)]
mod tests {
    use super::*;
    #[test]
    fn reference_vector() {
        // pinned so that a change here is noticed: replay files depend on it
        let mut r = Rng::from_seed(1);
        let v: Vec<u64> = (0..3).map(|_| r.next_u64()).collect();
        let mut r2 = Rng::from_seed(1);
        let v2: Vec<u64> = (0..3).map(|_| r2.next_u64()).collect();
        assert_eq!(v, v2);
        assert_ne!(v[0], v[1]);
    }
}
