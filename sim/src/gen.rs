//! Swarm-style generators for decimals. Each run first draws a configuration (which classes are
//! enabled, size ranges) and then values from it, so that runs differ in kind and not only in value.

use crate::prng::Rng;
use crate::refdec::Dec;

#[derive(Clone, Debug)]
pub struct ValueCfg {
    pub max_digits: usize,
    /// |scale| never exceeds this
    pub scale_abs_max: i64,
    /// weights of the digit-string classes (see `DIGIT_CLASSES`)
    pub digit_w: [u32; 11],
    /// weights of the scale classes (see `gen_scale`)
    pub scale_w: [u32; 8],
    pub neg_num: u64, // probability of a negative sign = neg_num/8
}

pub const DIGIT_CLASSES: [&str; 11] = [
    "one-digit", "short", "u64-boundary", "medium", "long", "very-long", "all-nines", "power-of-ten", "pow10-plus-minus-1", "zero",
    "one-point-zeros",
];

impl ValueCfg {
    /// Draw a swarm configuration: each class is switched off with probability 1/4 (never all of them).
    pub fn swarm(rng: &mut Rng, max_digits: usize, scale_abs_max: i64) -> ValueCfg {
        let base_d: [u32; 11] = [6, 14, 6, 14, 10, 3, 6, 6, 6, 4, 4];
        let base_s: [u32; 8] = [8, 20, 18, 8, 8, 6, 4, 6];
        let mut digit_w = base_d;
        let mut scale_w = base_s;
        for w in digit_w.iter_mut() {
            if rng.chance(1, 4) {
                *w = 0;
            }
        }
        for w in scale_w.iter_mut() {
            if rng.chance(1, 4) {
                *w = 0;
            }
        }
        if digit_w.iter().all(|&w| w == 0) {
            digit_w = base_d;
        }
        if scale_w.iter().all(|&w| w == 0) {
            scale_w = base_s;
        }
        ValueCfg { max_digits, scale_abs_max, digit_w, scale_w, neg_num: rng.below(8) }
    }
}

fn random_digits(rng: &mut Rng, n: usize) -> String {
    let mut s = String::with_capacity(n);
    if n == 0 {
        return s;
    }
    s.push((b'1' + rng.below(9) as u8) as char);
    // digit texture: uniform / zero-heavy / nine-heavy / repeated
    let texture = rng.below(6);
    let rep = (b'0' + rng.below(10) as u8) as char;
    for _ in 1..n {
        let c = match texture {
            0 | 1 | 2 => (b'0' + rng.below(10) as u8) as char,
            3 => {
                if rng.chance(3, 4) {
                    '0'
                } else {
                    (b'0' + rng.below(10) as u8) as char
                }
            }
            4 => {
                if rng.chance(3, 4) {
                    '9'
                } else {
                    (b'0' + rng.below(10) as u8) as char
                }
            }
            _ => rep,
        };
        s.push(c);
    }
    // sometimes force trailing zeros (digits that a printer might drop)
    if n > 1 && rng.chance(1, 5) {
        let k = 1 + rng.below((n - 1).min(20) as u64) as usize;
        let keep = n - k;
        s.truncate(keep);
        for _ in 0..k {
            s.push('0');
        }
    }
    s
}

/// returns (digits, class index)
pub fn gen_digits(rng: &mut Rng, cfg: &ValueCfg) -> (String, usize) {
    let md = cfg.max_digits.max(1);
    let class = rng.weighted(&cfg.digit_w);
    let len_upto = |rng: &mut Rng, lo: usize, hi: usize| -> usize {
        let hi = hi.min(md).max(1);
        let lo = lo.min(hi);
        lo + rng.below((hi - lo + 1) as u64) as usize
    };
    let s = match class {
        0 => random_digits(rng, 1),
        1 => {
            let n = len_upto(rng, 2, 8);
            random_digits(rng, n)
        }
        2 => {
            // around the u64 / 10^19 algorithm switches
            let choices: [&str; 8] = [
                "18446744073709551615",
                "18446744073709551616",
                "9223372036854775807",
                "9223372036854775808",
                "10000000000000000000",
                "9999999999999999999",
                "99999999999999999999",
                "1000000000000000000",
            ];
            if md >= 20 && rng.chance(1, 2) {
                rng.pick(&choices).to_string()
            } else {
                let n = len_upto(rng, 18, 21);
                random_digits(rng, n)
            }
        }
        3 => {
            let n = len_upto(rng, 9, 40);
            random_digits(rng, n)
        }
        4 => {
            let n = len_upto(rng, 41, 400);
            random_digits(rng, n)
        }
        5 => {
            let n = if rng.chance(1, 3) { len_upto(rng, 585, 595) } else { len_upto(rng, 401, md) };
            random_digits(rng, n)
        }
        6 => {
            let hi = if rng.chance(1, 8) { md } else { 45 };
            let n = len_upto(rng, 1, hi);
            "9".repeat(n)
        }
        7 => {
            let hi = if rng.chance(1, 8) { md } else { 45 };
            let n = len_upto(rng, 1, hi);
            format!("1{}", "0".repeat(n - 1))
        }
        8 => {
            let hi = if rng.chance(1, 8) { md } else { 45 };
            let n = len_upto(rng, 2, hi);
            if rng.chance(1, 2) {
                format!("1{}1", "0".repeat(n.saturating_sub(2)))
            } else {
                format!("{}8", "9".repeat(n - 1))
            }
        }
        9 => "0".to_string(),
        _ => {
            let n = len_upto(rng, 2, 45);
            format!("1{}", "0".repeat(n - 1))
        }
    };
    (s, class)
}

/// returns (scale, class index)
pub fn gen_scale(rng: &mut Rng, cfg: &ValueCfg, ndigits: usize, digit_class: usize) -> (i64, usize) {
    let m = cfg.scale_abs_max;
    let clamp = |v: i64| v.max(-m).min(m);
    if digit_class == 10 {
        // 1.000…0
        return (clamp(ndigits as i64 - 1), 7);
    }
    let class = rng.weighted(&cfg.scale_w);
    let nd = ndigits as i64;
    let s = match class {
        0 => 0,
        1 => rng.range(-40, 60),
        // around the number of digits: 0.000ddd with few leading zeros (Display threshold 5/6)
        2 => nd + rng.range(-3, 9),
        // trailing-zero threshold of Display (15/16)
        3 => rng.range(-19, -12),
        // inside the integer
        4 => rng.range(0, nd.max(1)),
        5 => {
            let mag = if rng.chance(1, 4) { rng.range(60_000, 100_000) } else { rng.log_range(1_000_000) as i64 };
            if rng.chance(1, 2) {
                mag
            } else {
                -mag
            }
        }
        6 => {
            let mag = rng.log_range(m.max(1) as u64) as i64;
            if rng.chance(1, 2) {
                mag
            } else {
                -mag
            }
        }
        _ => {
            // the extremes of the allowed range, and the 32-bit boundaries inside it
            let d = rng.range(0, 3);
            let anchors: [i64; 6] = [m, 1i64 << 31, 1i64 << 32, (1i64 << 31) + (1i64 << 30), 10_000_000_000, 3_000_000_000];
            let a = *rng.pick(&anchors);
            let a = if a > m { m } else { a };
            let a = if a == m { a - d } else { a + rng.range(-2, 2) };
            if rng.chance(1, 2) {
                a
            } else {
                -a
            }
        }
    };
    (clamp(s), class)
}

#[derive(Clone, Debug)]
pub struct GenInfo {
    pub digit_class: usize,
    pub scale_class: usize,
}

pub fn gen_dec(rng: &mut Rng, cfg: &ValueCfg) -> (Dec, GenInfo) {
    let (digits, dc) = gen_digits(rng, cfg);
    let (scale, sc) = gen_scale(rng, cfg, digits.len(), dc);
    let neg = rng.below(8) < cfg.neg_num;
    (Dec::new(neg, &digits, scale), GenInfo { digit_class: dc, scale_class: sc })
}

/// Coarse buckets used in run signatures
pub fn len_bucket(n: usize) -> u64 {
    match n {
        0..=1 => 0,
        2..=8 => 1,
        9..=17 => 2,
        18..=21 => 3,
        22..=40 => 4,
        41..=400 => 5,
        401..=800 => 6,
        _ => 7,
    }
}

pub fn scale_bucket(scale: i64, ndigits: usize) -> u64 {
    let nd = ndigits as i64;
    if scale == 0 {
        0
    } else if scale < -1_000_000 {
        1
    } else if scale < -15 {
        2
    } else if scale < 0 {
        3
    } else if scale < nd {
        4
    } else if scale == nd {
        5
    } else if scale <= nd + 5 {
        6
    } else if scale <= nd + 6 {
        7
    } else if scale <= 1_000_000 {
        8
    } else {
        9
    }
}

// ---------------------------------------------------------------- shrinking decimals

/// Simpler decimals, most aggressive first. `keep_zero`: whether zero is an acceptable simplification.
pub fn shrink_dec(d: &Dec) -> Vec<Dec> {
    let mut out: Vec<Dec> = vec![];
    let neg = d.is_neg();
    let digs = d.digits().to_string();
    let n = digs.len();
    let push = |out: &mut Vec<Dec>, neg: bool, digs: &str, scale: i64| {
        let c = Dec::new(neg, digs, scale);
        if &c != d && !out.contains(&c) {
            out.push(c);
        }
    };
    // fewer digits: halve from the right, from the middle, drop one
    if n > 1 {
        push(&mut out, neg, &digs[..n / 2], d.scale);
        push(&mut out, neg, &digs[n / 2..], d.scale);
        let mid = n / 2;
        let q = (n / 4).max(1);
        if mid + q <= n && mid >= q {
            let s = format!("{}{}", &digs[..mid - q / 2], &digs[mid - q / 2 + q..]);
            push(&mut out, neg, &s, d.scale);
        }
        push(&mut out, neg, &digs[..n - 1], d.scale);
        push(&mut out, neg, &digs[1..], d.scale);
        if n > 2 {
            let s = format!("{}{}", &digs[..n / 2], &digs[n / 2 + 1..]);
            push(&mut out, neg, &s, d.scale);
        }
    }
    // scale toward 0 and toward the digit count
    if d.scale != 0 {
        push(&mut out, neg, &digs, 0);
        push(&mut out, neg, &digs, d.scale / 2);
        push(&mut out, neg, &digs, d.scale - d.scale.signum());
        if d.scale.unsigned_abs() > 100 {
            push(&mut out, neg, &digs, d.scale.signum() * 100);
        }
    }
    if d.scale != n as i64 {
        push(&mut out, neg, &digs, n as i64);
    }
    // sign -> plus
    if neg {
        push(&mut out, false, &digs, d.scale);
    }
    // digits -> 1 / 0 / 9 (first differing position from the left, and whole-string forms)
    if n <= 64 {
        let b = digs.as_bytes();
        for (i, &c) in b.iter().enumerate() {
            for &r in &[b'0', b'1'] {
                if c != r && !(i == 0 && r == b'0') && c > r {
                    let mut v = b.to_vec();
                    v[i] = r;
                    push(&mut out, neg, std::str::from_utf8(&v).unwrap(), d.scale);
                }
            }
        }
    } else {
        let ones = format!("1{}", "0".repeat(n - 1));
        push(&mut out, neg, &ones, d.scale);
    }
    out
}
