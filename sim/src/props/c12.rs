//! C12 - reciprocal: accurate to the last requested digit, sign-symmetric, terminates.
//!
//! Simulated system: one `inverse` computation whose initial guess comes from `f64::exp2` (played by
//! the simulator: Rust documents its precision as non-deterministic) and whose Newton loop has no
//! proven bound (watched by a simulated step clock with a progress window; no wall-clock timeout).

use crate::env::floatsite::{FloatEnv, FloatHookGuard, StepHookGuard, WatchdogTrip};
use crate::framework::{catch_payload, payload_message, Failure, Obs, Property, Tier};
use crate::gen::{self, ValueCfg};
use crate::prng::Rng;
use crate::refdec::{pow10, pow2, pow5, Dec, RefDec};
use crate::util::{clip, intern};
use bigdecimal::num_bigint::{BigInt, BigUint};
use bigdecimal::num_traits::{One, Zero};
use bigdecimal::verif_hooks::FloatSite;
use bigdecimal::{BigDecimal, Context, RoundingMode};
use serde::{Deserialize, Serialize};
use serde_json::{json, Value};
use std::num::NonZeroU64;

#[derive(Clone, Copy, Debug, PartialEq, Eq, Serialize, Deserialize, PartialOrd, Ord)]
pub enum Mode {
    Up,
    Down,
    Ceiling,
    Floor,
    HalfUp,
    HalfDown,
    HalfEven,
}
pub const MODES: [Mode; 7] = [Mode::Up, Mode::Down, Mode::Ceiling, Mode::Floor, Mode::HalfUp, Mode::HalfDown, Mode::HalfEven];

impl Mode {
    pub fn to_crate(self) -> RoundingMode {
        match self {
            Mode::Up => RoundingMode::Up,
            Mode::Down => RoundingMode::Down,
            Mode::Ceiling => RoundingMode::Ceiling,
            Mode::Floor => RoundingMode::Floor,
            Mode::HalfUp => RoundingMode::HalfUp,
            Mode::HalfDown => RoundingMode::HalfDown,
            Mode::HalfEven => RoundingMode::HalfEven,
        }
    }
    pub fn mirror(self) -> Mode {
        match self {
            Mode::Ceiling => Mode::Floor,
            Mode::Floor => Mode::Ceiling,
            m => m,
        }
    }
    pub fn name(self) -> &'static str {
        match self {
            Mode::Up => "Up",
            Mode::Down => "Down",
            Mode::Ceiling => "Ceiling",
            Mode::Floor => "Floor",
            Mode::HalfUp => "HalfUp",
            Mode::HalfDown => "HalfDown",
            Mode::HalfEven => "HalfEven",
        }
    }
    pub fn is_half(self) -> bool {
        matches!(self, Mode::HalfUp | Mode::HalfDown | Mode::HalfEven)
    }
}

#[derive(Clone, Copy, Debug, PartialEq, Eq, Serialize, Deserialize, PartialOrd, Ord)]
#[serde(rename_all = "snake_case")]
pub enum Via {
    /// x.inverse_with_context(&Context::new(p, mode))
    Ctx,
    /// x.inverse()  (default context: p = 100, HalfEven)
    Default,
    /// 1 / x with the one of this primitive type (routes to inverse())
    OneU8,
    OneU16,
    OneU32,
    OneU64,
    OneU128,
    OneI8,
    OneI16,
    OneI32,
    OneI64,
    OneI128,
    OneF32,
    OneF64,
    /// 1u8 / &x
    OneU8Ref,
    /// &1u8 / &x   (both operands by reference)
    RefOneU8Ref,
    /// &1i64 / x
    RefOneI64,
    /// &1.0f64 / &x
    RefOneF64Ref,
    /// 1i64 / &x
    OneI64Ref,
    /// &1u128 / &x
    RefOneU128Ref,
}
const VIAS_DEFAULT: [Via; 19] = [
    Via::RefOneU8Ref,
    Via::RefOneI64,
    Via::RefOneF64Ref,
    Via::OneI64Ref,
    Via::RefOneU128Ref,
    Via::Default,
    Via::OneU8,
    Via::OneU16,
    Via::OneU32,
    Via::OneU64,
    Via::OneU128,
    Via::OneI8,
    Via::OneI16,
    Via::OneI32,
    Via::OneI64,
    Via::OneI128,
    Via::OneF32,
    Via::OneF64,
    Via::OneU8Ref,
];

#[derive(Clone, Debug, Serialize, Deserialize, PartialEq)]
#[serde(rename_all = "snake_case")]
pub enum EnvSel {
    /// native + the admissible set for this input's exp2 result (+ the stress set, margins only)
    All,
    One(FloatEnv),
}

#[derive(Clone, Debug, Serialize, Deserialize)]
pub struct Trace {
    pub x: Dec,
    pub prec: u64,
    pub mode: Mode,
    pub via: Via,
    pub env: EnvSel,
    /// how x travelled before the call (see Dec::to_bd_via); 0 = built freshly
    #[serde(default)]
    pub transport: u8,
}

pub struct C12;

const DEFAULT_PREC: u64 = 100;
/// 2^i 5^j grid: 61 x 31 values x 4 precisions around the exact length x 7 modes
const GRID: u64 = 61 * 31 * 4 * 7;
/// 99..9 / 100..01 grid: 60 lengths x 2 forms x 16 precisions x 7 modes
const GRID2: u64 = 60 * 2 * 16 * 7;
/// prefix grid: 900 three-digit prefixes x 22 lengths x 3 precisions
const GRID3: u64 = 900 * 22 * 3;
/// coefficients 1..=12 x every precision 1..=150
const GRID4: u64 = 12 * 150;
/// exhaustive short operands x tiny precisions
fn grid5(tier: Tier) -> u64 {
    match tier {
        Tier::Quick => 99_999 * 4,
        Tier::Thorough => 999_999 * 5,
    }
}

fn budget(p: u64) -> u64 {
    // quadratic convergence from a relative error <= 0.66: ~log2(5.5 (p+2)) iterations, +2 to see the repeat
    14 + (64 - (p + 2).leading_zeros() as u64)
}

fn call_inverse(x: &BigDecimal, t: &Trace) -> BigDecimal {
    match t.via {
        Via::Ctx => {
            let ctx = Context::new(NonZeroU64::new(t.prec).unwrap(), t.mode.to_crate());
            x.inverse_with_context(&ctx)
        }
        Via::Default => x.inverse(),
        Via::OneU8 => 1u8 / x.clone(),
        Via::OneU16 => 1u16 / x.clone(),
        Via::OneU32 => 1u32 / x.clone(),
        Via::OneU64 => 1u64 / x.clone(),
        Via::OneU128 => 1u128 / x.clone(),
        Via::OneI8 => 1i8 / x.clone(),
        Via::OneI16 => 1i16 / x.clone(),
        Via::OneI32 => 1i32 / x.clone(),
        Via::OneI64 => 1i64 / x.clone(),
        Via::OneI128 => 1i128 / x.clone(),
        Via::OneF32 => 1.0f32 / x.clone(),
        Via::OneF64 => 1.0f64 / x.clone(),
        Via::OneU8Ref => 1u8 / x,
        Via::RefOneU8Ref => &1u8 / x,
        Via::RefOneI64 => &1i64 / x.clone(),
        Via::RefOneF64Ref => &1.0f64 / x,
        Via::OneI64Ref => 1i64 / x,
        Via::RefOneU128Ref => &1u128 / x,
    }
}

enum RunOut {
    Value(BigDecimal),
    Watchdog(WatchdogTrip),
    Panic(String),
}

struct Exec {
    out: RunOut,
    ticks: u64,
    exp2_calls: Vec<(f64, f64, f64)>,
}

/// Budget and window of the step clock. One environment is known to be slow *by arithmetic*, not by defect:
/// when exp2(-1075) comes back as 2^-1074 the guess is up to twice 1/x, the first Newton step lands up to
/// 2^1074 too low and the iteration then doubles its way back - about 1080 cheap steps, after which it
/// converges normally. The clock allows for exactly that there and nowhere else.
fn clock(p: u64, env: FloatEnv) -> (u64, i128) {
    match env {
        FloatEnv::ZeroToMinSubnormal => (budget(p) + 1200, 64 + 2 * p as i128 + 700),
        _ => (budget(p), 64 + 2 * p as i128),
    }
}

fn run_once(x: &BigDecimal, t: &Trace, env: FloatEnv, p: u64, e0: i128) -> Exec {
    let (ticks_allowed, w) = clock(p, env);
    let fg = FloatHookGuard::install(FloatSite::InvGuessExp2, env);
    let sg = StepHookGuard::install(ticks_allowed, e0 - w, e0 + w);
    let r = catch_payload(|| call_inverse(x, t));
    let ticks = sg.ticks();
    let exp2_calls = fg.calls();
    drop(sg);
    drop(fg);
    let out = match r {
        Ok(v) => RunOut::Value(v),
        Err(pl) => match pl.downcast_ref::<WatchdogTrip>() {
            Some(w) => RunOut::Watchdog(w.clone()),
            None => RunOut::Panic(payload_message(&*pl)),
        },
    };
    Exec { out, ticks, exp2_calls }
}

/// If |x| = 2^a 5^b 10^c, the exact reciprocal and its number of significant digits
fn exact_reciprocal(x: &RefDec) -> Option<(RefDec, u64)> {
    let mut m: BigUint = x.int.magnitude().clone();
    if m.is_zero() {
        return None;
    }
    let mut a = 0u64;
    let tz = m.trailing_zeros().unwrap_or(0);
    if tz > 0 {
        m >>= tz as usize;
        a = tz;
    }
    let five = BigUint::from(5u8);
    let mut b = 0u64;
    // strip factors of five (bounded: the caller's digit counts keep this small)
    loop {
        if m.is_one() {
            break;
        }
        let (q, r) = (&m / &five, &m % &five);
        if !r.is_zero() {
            return None;
        }
        m = q;
        b += 1;
        if b > 20000 {
            return None;
        }
    }
    // 1/(2^a 5^b) = 5^a 2^b / 10^(a+b)
    let int = pow5(a) * pow2(b);
    let inv = RefDec { int: BigInt::from_biguint(x.int.sign(), int), exp: -((a + b) as i128) - x.exp };
    let n = inv.normal();
    let nd = n.ndigits();
    Some((n, nd))
}

fn fail(rule: &'static str, t: &Trace, env: &FloatEnv, p: u64, mode: Mode, detail: String) -> Failure {
    Failure::new(rule, format!("1/({}e{}) p={} {} via {:?} [exp2 env {}]: {}", clip(&t.x.int, 40), -(t.x.scale as i128), p, mode.name(), t.via, env.name(), detail))
        .fact("mode", mode.name())
        .fact("mode_is_half", mode.is_half())
        .fact("x_negative", t.x.is_neg())
        .fact("env", env.name())
        .fact("via_ctx", t.via == Via::Ctx)
        .focus(json!({"env": serde_json::to_value(env).unwrap()}))
}

impl C12 {
    /// Oracles A1-A3 on one result. `tag` facts are added by the caller.
    fn judge(&self, t: &Trace, env: &FloatEnv, p: u64, mode: Mode, xr: &RefDec, exact: &Option<(RefDec, u64)>, r: &BigDecimal, obs: &mut Obs) -> Option<Failure> {
        let rr = RefDec::from_bd(r);
        // A1
        if rr.is_zero() || rr.sign() != xr.sign() {
            return Some(fail("A1-sign", t, env, p, mode, format!("result {} has the wrong sign or is zero", clip(&r.to_string(), 60))));
        }
        let terminating_within_p = matches!(exact, Some((_, nd)) if *nd <= p);
        // A3 exactness
        if let Some((inv, nd)) = exact {
            if *nd <= p {
                obs.reach("exact_reciprocal_fits_precision");
                if !rr.value_eq(inv) {
                    let f = fail("A3-exact-when-representable", t, env, p, mode, format!("1/x = {} exactly ({} digits <= p) but the result is {}", inv.describe(), nd, rr.describe()))
                        .fact("terminating_within_p", true)
                        .fact("p_le_3", p <= 3);
                    return Some(f);
                }
                return None;
            }
        }
        // A2: |r x - 1| < u |x|, u = one unit in the p-th significant digit (the coarser of r's and 1/x's)
        let le_x = xr.lead_exp();
        let x_is_pow10 = xr.normal().int.magnitude().is_one();
        let e_true = if x_is_pow10 { -le_x } else { -le_x - 1 };
        let e_r = rr.lead_exp();
        let u = RefDec::pow10(e_r.max(e_true) - p as i128 + 1);
        let resid = rr.mul(xr).sub(&RefDec::one()).abs();
        let bound = u.mul(&xr.abs());
        if !resid.lt(&bound) {
            let f = fail("A2-within-one-unit", t, env, p, mode, format!("result {} is a full unit or more in digit {} away from 1/x", rr.describe(), p))
                .fact("terminating_within_p", terminating_within_p)
                .fact("p_le_3", p <= 3);
            return Some(f);
        }
        None
    }
}

fn gen_x(rng: &mut Rng) -> (Dec, u64) {
    // returns (x, hint): hint != 0 suggests a precision related to the exact length of 1/x
    match rng.below(12) {
        // terminating reciprocals 2^i 5^j 10^k
        0..=3 => {
            let i = rng.below(61);
            let j = rng.below(31);
            let int = pow2(i) * pow5(j);
            let k = rng.range(-30, 30);
            let d = Dec::new(rng.chance(1, 2), &int.to_str_radix(10), k);
            let hint = exact_reciprocal(&d.to_ref()).map(|(_, nd)| nd).unwrap_or(0);
            (d, hint)
        }
        // 99..9 and 100..01 (reciprocal just above / below a power of ten)
        4 => {
            let n = 1 + rng.below(60) as usize;
            let digits = if rng.chance(1, 2) { "9".repeat(n) } else { format!("1{}1", "0".repeat(n)) };
            (Dec::new(rng.chance(1, 2), &digits, rng.range(-50, 50)), 0)
        }
        // bit length drives the initial guess through f64 underflow: 300..1500 digits
        5 => {
            let n = 300 + rng.below(1201) as usize;
            let mut s = String::with_capacity(n);
            s.push((b'1' + rng.below(9) as u8) as char);
            for _ in 1..n {
                s.push((b'0' + rng.below(10) as u8) as char);
            }
            // bias towards the subnormal window of exp2(-bits): 1022 < bits <= 1074  <=> 308..324 digits
            if rng.chance(1, 2) {
                s.truncate(307 + rng.below(19) as usize);
            }
            (Dec::new(rng.chance(1, 2), &s, rng.range(-2000, 2000)), 0)
        }
        // integers of an exact bit length around the f64 subnormal window of exp2(-bits)
        // (1022 < bits <= 1074: subnormal result; bits > 1074: underflow to 0, fallback guess)
        6 => {
            let bits = 1015 + rng.below(70);
            let mut v = pow2(bits - 1);
            match rng.below(4) {
                0 => {}
                1 => v = pow2(bits) - BigUint::from(1u8),
                _ => {
                    // random value in [2^(bits-1), 2^bits)
                    let mut acc = BigUint::from(1u8);
                    for _ in 0..((bits - 1) / 32) {
                        acc = (acc << 32usize) + BigUint::from(rng.next_u64() as u32);
                    }
                    let rem = (bits - 1) % 32;
                    acc = (acc << (rem as usize)) + BigUint::from(rng.next_u64() & ((1u64 << rem) - 1));
                    v = acc;
                }
            }
            (Dec::new(rng.chance(1, 2), &v.to_str_radix(10), rng.range(-400, 400)), 0)
        }
        // values that agree with the shortcut constant ONE in their low machine words:
        // coefficient 10^s + m * 2^(32 j) at scale s (the entry point special-cases is_one / is_zero)
        7 if rng.chance(1, 3) => {
            let sc = rng.below(26);
            let j = 1 + rng.below(4);
            let hi = if rng.chance(1, 2) { 9 } else { 1_000_000 };
            let m = 1 + rng.below(hi);
            let coeff = crate::refdec::pow10(sc) + (BigUint::from(m) << (32 * j as usize));
            (Dec::new(rng.chance(1, 2), &coeff.to_str_radix(10), sc as i64), 0)
        }
        // unusual but valid representations: a short value padded with many trailing zeros and a matching
        // scale (what with_scale / arithmetic produce), e.g. 21.000...0 with 20..300 zeros
        7 if rng.chance(1, 2) => {
            let head = match rng.below(4) {
                0 => (1 + rng.below(99)).to_string(),
                1 => rng.pick(&["1", "11", "21", "101", "5", "25", "125", "2", "8", "3"]).to_string(),
                _ => {
                    let n = 1 + rng.below(30) as usize;
                    let mut h = String::new();
                    h.push((b'1' + rng.below(9) as u8) as char);
                    for _ in 1..n {
                        h.push((b'0' + rng.below(10) as u8) as char);
                    }
                    h
                }
            };
            let zeros = match rng.below(4) {
                0 => 18 + rng.below(6),
                1 => 250 + rng.below(12),
                _ => 1 + rng.below(320),
            };
            let scale = zeros as i64 + rng.range(-3, 3) * (rng.below(3) as i64 / 2);
            (Dec::new(rng.chance(1, 2), &format!("{}{}", head, "0".repeat(zeros as usize)), scale), 0)
        }
        // a hair away from a value with a closed-form reciprocal (2^k, 5^k, 10^k, 1): c * (1 +- d * 10^-j)
        // - anything that recognises such values approximately (through a float, a truncated compare, ...) is fooled here
        8 if rng.chance(1, 2) => {
            let c: BigUint = match rng.below(4) {
                0 => pow2(1 + rng.below(62)),
                1 => pow5(1 + rng.below(27)),
                2 => BigUint::from(1u8),
                _ => pow2(rng.below(20)) * pow5(rng.below(12)),
            };
            let j = 8 + rng.below(40);
            let d = 1 + rng.below(9);
            let scaled = &c * crate::refdec::pow10(j);
            let delta = &c * BigUint::from(d);
            let v = if rng.chance(1, 2) || scaled <= delta { scaled + delta } else { scaled - delta };
            (Dec::new(rng.chance(1, 2), &v.to_str_radix(10), j as i64 + rng.range(-6, 6)), 0)
        }
        // small integers and simple fractions
        7 => {
            let hi = if rng.chance(1, 2) { 100 } else { 100_000 };
            let v = 2 + rng.below(hi);
            (Dec::new(rng.chance(1, 2), &v.to_string(), rng.range(-12, 12)), 0)
        }
        _ => {
            let mut cfg = ValueCfg::swarm(rng, 1500, 2000);
            // zero is outside the property's domain; never let the swarm leave only that class enabled
            cfg.digit_w[9] = 0;
            if cfg.digit_w.iter().all(|&w| w == 0) {
                cfg.digit_w[1] = 1;
            }
            let (d, _) = gen::gen_dec(rng, &cfg);
            (d, 0)
        }
    }
}

fn gen_prec(rng: &mut Rng, hint: u64) -> u64 {
    match rng.below(10) {
        0..=3 => 1 + rng.below(5),
        4 | 5 if hint > 0 => (hint as i64 + rng.range(-1, 1)).clamp(1, 150) as u64,
        6 => 100,
        7 => 1 + rng.below(20),
        _ => 1 + rng.below(150),
    }
}

impl Property for C12 {
    type Trace = Trace;
    fn id(&self) -> &'static str {
        "C12"
    }
    fn level(&self) -> &'static str {
        "exploration"
    }
    fn runs(&self, tier: Tier) -> u64 {
        GRID + GRID2 + GRID3 + GRID4 + grid5(tier) + match tier {
            Tier::Quick => 60_000,
            Tier::Thorough => 6_000_000,
        }
    }

    fn generate(&self, rng: &mut Rng, tier: Tier, run: u64) -> Trace {
        if run < GRID {
            // deterministic enumeration of the terminating reciprocals the property names:
            // x = 2^i 5^j (all i <= 60, j <= 30) at one below, at, and one / two above their exact length, all 7 modes
            let i = run % 61;
            let j = (run / 61) % 31;
            let pk = (run / (61 * 31)) % 4;
            let mode = MODES[((run / (61 * 31 * 4)) % 7) as usize];
            let int = pow2(i) * pow5(j);
            // half of the cells carry part of the power of ten inside the coefficient (5^23 * 10^9 written out)
            let pad = if rng.chance(1, 2) { rng.below(41) as usize } else { 0 };
            let x = Dec::new(rng.chance(1, 2), &format!("{}{}", int.to_str_radix(10), "0".repeat(pad)), rng.range(-30, 30));
            let nd = exact_reciprocal(&x.to_ref()).map(|(_, nd)| nd).unwrap_or(1);
            let prec = (nd as i64 - 1 + pk as i64).clamp(1, 150) as u64;
            return Trace { x, prec, mode, via: Via::Ctx, env: EnvSel::All, transport: (run % 11) as u8 };
        }
        if run < GRID + GRID2 {
            // deterministic enumeration of the reciprocals just above / below a power of ten the property names:
            // x = 99..9 and 100..01 with k = 1..60 digits/zeros, at 16 precisions placed relative to k, all 7 modes
            let r = run - GRID;
            let k = (r % 60) + 1;
            let nines = (r / 60) % 2 == 0;
            let ps = (r / 120) % 16;
            let mode = MODES[((r / (120 * 16)) % 7) as usize];
            let digits = if nines { "9".repeat(k as usize) } else { format!("1{}1", "0".repeat(k as usize - 1)) };
            let ki = k as i64;
            let prec = match ps {
                0..=4 => ps as i64 + 1,
                5..=9 => ki - 2 + (ps as i64 - 5),
                10..=12 => 2 * ki - 1 + (ps as i64 - 10),
                13 => 100,
                14 => 3 * ki,
                _ => ki + 7,
            }
            .clamp(1, 150) as u64;
            let x = Dec::new(rng.chance(1, 2), &digits, rng.range(-20, 20));
            return Trace { x, prec, mode, via: Via::Ctx, env: EnvSel::All, transport: (run % 11) as u8 };
        }
        if run < GRID + GRID2 + GRID3 {
            // leading digits x length x small precision: every 3-digit prefix 100..999 x 1..22 digits x p = 1..3
            // (the magnitudes of the Newton products - and so any machine-word boundary they cross - are a
            // function of the leading digits of x, its length and p). Native environment only: this grid is
            // about the arithmetic, the perturbations are exercised everywhere else.
            let r = run - GRID - GRID2;
            let prefix = 100 + (r % 900);
            let nd = ((r / 900) % 22) as usize + 1;
            let prec = (r / (900 * 22)) % 3 + 1;
            let mut digits = prefix.to_string();
            digits.truncate(nd.min(3));
            while digits.len() < nd {
                digits.push((b'0' + rng.below(10) as u8) as char);
            }
            let mode = *rng.pick(&MODES);
            let x = Dec::new(rng.chance(1, 2), &digits, rng.range(-25, 25));
            return Trace { x, prec, mode, via: Via::Ctx, env: EnvSel::One(FloatEnv::Native), transport: (run % 11) as u8 };
        }
        if run < GRID + GRID2 + GRID3 + GRID4 {
            // every precision 1..=150 for the one- and two-digit coefficients 1..=12 (random scale, sign and mode):
            // a shortcut or a fixed-width intermediate that depends on the precision alone shows up here
            let r = run - GRID - GRID2 - GRID3;
            let c = r % 12 + 1;
            let prec = r / 12 + 1;
            let x = Dec::new(rng.chance(1, 2), &c.to_string(), rng.range(-30, 30));
            return Trace { x, prec, mode: *rng.pick(&MODES), via: Via::Ctx, env: EnvSel::All, transport: (run % 11) as u8 };
        }
        let g5 = grid5(tier);
        if run < GRID + GRID2 + GRID3 + GRID4 + g5 {
            // exhaustive short operands at the tiny precisions the property stresses: every coefficient below 10^5
            // at p = 1..4 (thorough: below 10^6 at p = 1..5). An intermediate Newton iterate that lands exactly on a
            // special value (1.000, 10^j) does so for a handful of such operands only. Native exp2: the guess is
            // part of what makes the coincidence.
            let r = run - GRID - GRID2 - GRID3 - GRID4;
            let (cmax, pmax) = match tier {
                Tier::Quick => (99_999u64, 4u64),
                Tier::Thorough => (999_999u64, 5u64),
            };
            let c = r % cmax + 1;
            let prec = r / cmax + 1;
            debug_assert!(prec <= pmax);
            let mode = MODES[((c + prec) % 7) as usize];
            let x = Dec::new(c % 2 == 0, &c.to_string(), (c % 13) as i64 - 6 + c.to_string().len() as i64);
            return Trace { x, prec, mode, via: Via::Ctx, env: EnvSel::One(FloatEnv::Native), transport: 0 };
        }
        let via = if rng.chance(1, 5) { *rng.pick(&VIAS_DEFAULT) } else { Via::Ctx };
        if via != Via::Ctx && rng.chance(1, 2) {
            // the operator forms have shortcuts of their own (one, two, powers of ten ...): aim at them
            let ints: [&str; 24] = ["1", "-1", "2", "-2", "10", "-10", "100", "-100", "5", "-5", "4", "-8", "25", "3", "-7", "1000", "15", "125", "-16", "11", "19", "1999", "1000000000000000001", "-12"];
            let pick: &str = *rng.pick(&ints);
            // small scales put many of these strictly between the integers (1.5, 1.25, -1.6, 1.999, ...)
            let x = Dec { int: pick.to_string(), scale: rng.range(-6, 6).max(if pick.len() > 6 { 18 } else { -6 }) };
            return Trace { x, prec: DEFAULT_PREC, mode: Mode::HalfEven, via, env: EnvSel::All, transport: (run % 11) as u8 };
        }
        if via == Via::Ctx && rng.chance(1, 12) {
            // reciprocals at a rounding boundary: 1/x within ~10^-(p+15) of a half-way point of the p-digit result
            // or of the (p+2)-digit working value (M ends in 5 one digit below that precision)
            let hi = if rng.chance(1, 2) { 12 } else { 60 };
            let prec = 1 + rng.below(hi);
            let q = if rng.chance(1, 2) { prec + 1 } else { prec + 3 };
            let mut m = String::new();
            m.push((b'1' + rng.below(9) as u8) as char);
            for _ in 1..(q - 1) {
                m.push((b'0' + rng.below(10) as u8) as char);
            }
            m.push('5');
            let mb = crate::refdec::biguint_from_digits(m.as_bytes());
            let n = q + 3 * prec + 40;
            let xi = if q == prec + 3 && rng.chance(2, 3) {
                // the point where the two (p+2)-digit neighbours G, G+1 of 1/x are mapped onto the rounding boundary
                // by one exact Newton step: T' = T + u^2/(4T), T = M/10^q the half-way point, u = 10^-(p+2).
                // (r -> r(2 - x r) = 1/x - x (r - 1/x)^2: both neighbours sit u/2 away, so both images are u^2/(4T)
                // below 1/x; if that lands exactly on the boundary, any noise decides each image separately.)
                // 1/T' = 4 M 10^(q+p+1) / (4 M^2 10^(p+1) + 10^q)
                let num = BigUint::from(4u8) * &mb * crate::refdec::pow10(q + prec + 1) * crate::refdec::pow10(n);
                let den = BigUint::from(4u8) * &mb * &mb * crate::refdec::pow10(prec + 1) + crate::refdec::pow10(q);
                num / den
            } else {
                crate::refdec::pow10(n) * crate::refdec::pow10(q) / &mb
            };
            // a small neighbourhood, on the scale of the last digits
            let delta = rng.below(7);
            let xi = xi + BigUint::from(delta);
            let x = Dec::new(rng.chance(1, 2), &xi.to_str_radix(10), rng.range(-40, 40));
            let mode = *rng.pick(&MODES);
            return Trace { x, prec, mode, via: Via::Ctx, env: EnvSel::All, transport: (run % 11) as u8 };
        }
        let (x, hint) = gen_x(rng);
        let prec = if via == Via::Ctx { gen_prec(rng, hint) } else { DEFAULT_PREC };
        let mode = if via == Via::Ctx { *rng.pick(&MODES) } else { Mode::HalfEven };
        let transport = rng.below(11) as u8;
        Trace { x, prec, mode, via, env: EnvSel::All, transport }
    }

    fn execute(&self, t: &Trace, obs: &mut Obs) -> Vec<Failure> {
        let mut fails = vec![];
        if t.x.is_zero() || t.prec == 0 {
            return fails; // outside the property's domain
        }
        let (p, mode) = if t.via == Via::Ctx { (t.prec, t.mode) } else { (DEFAULT_PREC, Mode::HalfEven) };
        let x = t.x.to_bd_via(t.transport);
        let xr = t.x.to_ref();
        let exact = exact_reciprocal(&xr);
        let le = t.x.lead_exp();
        let e0 = -le - 1;
        obs.digest_str(&t.x.int);
        obs.digest(&[t.x.scale as u64, p, mode as u64, t.via as u64]);
        let lb = gen::len_bucket(t.x.ndigits());
        let pb = match p {
            1..=3 => 0u64,
            4..=5 => 1,
            6..=20 => 2,
            21..=99 => 3,
            100 => 4,
            _ => 5,
        };

        // ---- native run: learn what exp2 returned, then build the admissible set
        let ex = run_once(&x, t, FloatEnv::Native, p, e0);
        obs.execs += 1;
        obs.execs_fault_free += 1;
        obs.steps += ex.ticks + ex.exp2_calls.len() as u64;
        obs.max("newton_ticks_native", ex.ticks);
        let native_real = ex.exp2_calls.first().map(|c| c.1);
        let mut envs: Vec<(FloatEnv, bool)> = vec![]; // (env, admissible)
        match (&t.env, native_real) {
            (EnvSel::One(e), _) => {
                if *e != FloatEnv::Native {
                    let adm = match (*e, native_real) {
                        (FloatEnv::Ulp(d), Some(r)) if r != 0.0 && r.abs() >= f64::MIN_POSITIVE => d.abs() <= 16,
                        (FloatEnv::Ulp(d), Some(r)) if r != 0.0 => d.abs() <= 1,
                        (FloatEnv::FlushSubnormal, Some(_)) => true,
                        (FloatEnv::ZeroToMinSubnormal, Some(r)) => r == 0.0 && ex.exp2_calls.first().map(|c| c.0) == Some(-1075.0),
                        _ => false,
                    };
                    envs.push((*e, adm));
                }
            }
            (EnvSel::All, Some(r)) if r != 0.0 && r.is_finite() => {
                if r.abs() >= f64::MIN_POSITIVE {
                    obs.reach("exp2_result_normal");
                    for d in [1, -1, 4, -4, 16, -16] {
                        envs.push((FloatEnv::Ulp(d), true));
                    }
                    for e in [FloatEnv::Ulp(1000), FloatEnv::Ulp(-1000), FloatEnv::Rel(30), FloatEnv::Rel(-30), FloatEnv::Rel(10), FloatEnv::Rel(-10), FloatEnv::ForceZero] {
                        envs.push((e, false));
                    }
                } else {
                    obs.reach("exp2_result_subnormal");
                    envs.push((FloatEnv::Ulp(1), true));
                    envs.push((FloatEnv::Ulp(-1), true));
                    envs.push((FloatEnv::FlushSubnormal, true));
                    for e in [FloatEnv::Ulp(16), FloatEnv::Ulp(-16), FloatEnv::Rel(10), FloatEnv::Rel(-10)] {
                        envs.push((e, false));
                    }
                }
            }
            (EnvSel::All, Some(_)) => {
                obs.reach("exp2_underflowed_natively_fallback_guess");
                // exp2(-1075): the exact value is a tie between 0 and the smallest subnormal
                if ex.exp2_calls.first().map(|c| c.0) == Some(-1075.0) {
                    obs.reach("exp2_tie_at_1075_bits");
                    envs.push((FloatEnv::ZeroToMinSubnormal, true));
                }
            }
            (EnvSel::All, None) => {
                obs.reach("no_exp2_call(shortcut_for_one)");
            }
        }

        let mut native_value: Option<BigDecimal> = None;
        let judge_exec = |ex: Exec, env: FloatEnv, admissible: bool, obs: &mut Obs, fails: &mut Vec<Failure>, native_value: &mut Option<BigDecimal>| {
            let outcome;
            match ex.out {
                RunOut::Panic(m) => {
                    outcome = 3u64;
                    if admissible {
                        fails.push(fail("A0-no-panic", t, &env, p, mode, format!("panicked: {}", clip(&m, 120))));
                    } else {
                        obs.reach("stress_panic(evidence only)");
                    }
                }
                RunOut::Watchdog(w) => {
                    outcome = 2;
                    if admissible {
                        fails.push(fail("L1-terminates", t, &env, p, mode, format!("simulated watchdog: {} after {} ticks (budget {}), iterate exponent ~{}", w.reason, w.ticks, clock(p, env).0, w.exponent)));
                    } else {
                        obs.reach("stress_watchdog_trip(evidence only)");
                    }
                }
                RunOut::Value(v) => {
                    let (vi, vs) = v.as_bigint_and_exponent();
                    obs.digest(&[vs as u64, vi.bits(), vi.iter_u64_digits().next().unwrap_or(0), vi.iter_u64_digits().last().unwrap_or(0)]);
                    let f = self.judge(t, &env, p, mode, &xr, &exact, &v, obs);
                    outcome = f.is_some() as u64;
                    if admissible {
                        if let Some(f) = f {
                            fails.push(f);
                        }
                        if env != FloatEnv::Native {
                            if let Some(nv) = native_value.as_ref() {
                                if *nv != v {
                                    obs.reach("result_varied_across_admissible_environments(evidence only)");
                                }
                            }
                        } else {
                            *native_value = Some(v);
                        }
                    } else if f.is_some() {
                        obs.reach("stress_result_out_of_spec(evidence only)");
                    } else if let Some(nv) = native_value.as_ref() {
                        if *nv != v {
                            obs.reach("stress_result_differs_but_in_spec(evidence only)");
                        }
                    }
                }
            }
            obs.sig(&[12, lb, pb, mode as u64, t.x.is_neg() as u64, (t.via != Via::Ctx) as u64, env.code(), ex.ticks.min(30), outcome, ex.exp2_calls.len() as u64], env != FloatEnv::Native);
            obs.digest(&[env.code(), ex.ticks, outcome]);
        };
        let native_fallback = matches!(native_real, Some(r) if r == 0.0);
        judge_exec(ex, FloatEnv::Native, true, obs, &mut fails, &mut native_value);
        if native_fallback {
            obs.reach("fallback_guess_used");
        }

        for (env, adm) in envs {
            let ex = run_once(&x, t, env, p, e0);
            obs.execs += 1;
            obs.execs_faulted += 1;
            obs.steps += ex.ticks + ex.exp2_calls.len() as u64;
            obs.fault(intern(&format!("exp2_{}{}", env.name(), if adm { "" } else { "(stress)" })));
            if adm && env != FloatEnv::ZeroToMinSubnormal {
                obs.max("newton_ticks_admissible", ex.ticks);
            } else if adm {
                obs.max("newton_ticks_tie_environment", ex.ticks);
            }
            if let Some(&(_, real, out)) = ex.exp2_calls.first() {
                if real != 0.0 && out == 0.0 {
                    obs.reach("fallback_guess_used");
                    if env == FloatEnv::FlushSubnormal {
                        obs.reach("flush_subnormal_diverted_to_fallback");
                    }
                }
            }
            judge_exec(ex, env, adm, obs, &mut fails, &mut native_value);
        }

        // ---- A4: negation commutes under the mirrored mode (native environment)
        if t.via == Via::Ctx {
            if let Some(v) = native_value.as_ref() {
                let tm = Trace { x: t.x.negated(), prec: p, mode: mode.mirror(), via: Via::Ctx, env: EnvSel::One(FloatEnv::Native), transport: 0 };
                let xm = tm.x.to_bd();
                let exm = run_once(&xm, &tm, FloatEnv::Native, p, e0);
                obs.execs += 1;
                obs.execs_fault_free += 1;
                obs.steps += exm.ticks;
                match exm.out {
                    RunOut::Value(vm) => {
                        let a = RefDec::from_bd(v);
                        let b = RefDec::from_bd(&vm).neg();
                        if !a.value_eq(&b) {
                            fails.push(
                                fail("A4-negation-commutes", t, &FloatEnv::Native, p, mode, format!("inverse(x,{}) = {} but -inverse(-x,{}) = {}", mode.name(), a.describe(), mode.mirror().name(), b.describe()))
                                    .fact("mode_is_directed", matches!(mode, Mode::Floor | Mode::Ceiling)),
                            );
                        }
                    }
                    RunOut::Watchdog(w) => fails.push(fail("L1-terminates", &tm, &FloatEnv::Native, p, mode.mirror(), format!("simulated watchdog on the negated input: {} after {} ticks", w.reason, w.ticks))),
                    RunOut::Panic(m) => fails.push(fail("A0-no-panic", &tm, &FloatEnv::Native, p, mode.mirror(), format!("panicked on the negated input: {}", clip(&m, 120)))),
                }
            }
        } else if let Some(v) = native_value.as_ref() {
            // A5: every spelling of "1 / x" equals inverse()
            let td = Trace { via: Via::Default, ..t.clone() };
            let exd = run_once(&x, &td, FloatEnv::Native, p, e0);
            obs.execs += 1;
            obs.execs_fault_free += 1;
            if let RunOut::Value(vd) = exd.out {
                // the statement lists `1 / x` as another spelling of the reciprocal: equal in value
                // (representation is not promised, so it is not demanded)
                if !RefDec::from_bd(v).value_eq(&RefDec::from_bd(&vd)) {
                    fails.push(fail("A5-one-over-x-is-inverse", t, &FloatEnv::Native, p, mode, format!("{:?} gives {} but inverse() gives {}", t.via, clip(&v.to_string(), 50), clip(&vd.to_string(), 50))));
                }
                obs.reach("one_over_x_compared_with_inverse");
            }
        }
        fails
    }

    fn narrow(&self, t: &Trace, f: &Failure) -> Trace {
        let env: FloatEnv = f.focus.get("env").and_then(|v| serde_json::from_value(v.clone()).ok()).unwrap_or(FloatEnv::Native);
        Trace { env: EnvSel::One(env), ..t.clone() }
    }

    fn shrink(&self, t: &Trace) -> Vec<Trace> {
        let mut out = vec![];
        if let EnvSel::One(e) = &t.env {
            if *e != FloatEnv::Native {
                out.push(Trace { env: EnvSel::One(FloatEnv::Native), ..t.clone() });
                if let FloatEnv::Ulp(d) = *e {
                    if d.abs() > 1 {
                        out.push(Trace { env: EnvSel::One(FloatEnv::Ulp(d.signum())), ..t.clone() });
                    }
                }
            }
        }
        if t.via != Via::Ctx && t.via != Via::Default {
            out.push(Trace { via: Via::Default, ..t.clone() });
        }
        if t.via == Via::Ctx {
            for p in [1, 2, 3, t.prec / 2, t.prec.saturating_sub(1)] {
                if p >= 1 && p < t.prec {
                    out.push(Trace { prec: p, ..t.clone() });
                }
            }
            if t.mode != Mode::Down {
                out.push(Trace { mode: Mode::Down, ..t.clone() });
            }
            if t.mode != Mode::HalfEven && t.mode != Mode::Down {
                out.push(Trace { mode: Mode::HalfEven, ..t.clone() });
            }
        }
        if t.transport != 0 {
            out.push(Trace { transport: 0, ..t.clone() });
        }
        for d in gen::shrink_dec(&t.x) {
            if !d.is_zero() {
                out.push(Trace { x: d, ..t.clone() });
            }
        }
        out
    }

    fn rule_text(&self) -> String {
        "run = one (x, p, mode, spelling) x (native exp2 + the admissible set for this input's exp2 result: +-1,4,16 ULP if normal; +-1 ULP or flush-to-zero if subnormal) + a stress set (+-1000 ULP, relative 2^-30 / 2^-10, forced fallback guess) that only feeds margins, + the negated input under the mirrored mode. Each execution runs under a simulated step clock (budget 14+ceil(log2(p+2)) Newton iterations, iterate exponent confined to e0 +- (64+2p)). Inputs: 2^i 5^j 10^k (i<=60, j<=30) at and around their exact length, 99..9 / 100..01, 300..1500-digit values (f64 underflow of the guess), swarm-generated 1..1500 digits with scale +-2000; p in 1..150 weighted to 1..5 and 100; 7 modes; 14 spellings of 1/x at the default context. Non-trivial = executed under a perturbed exp2; signatures = (digit bucket, precision bucket, mode, sign, spelling class, environment, Newton ticks, outcome).".into()
    }
    fn assumptions(&self) -> Vec<String> {
        vec![
            "admissible exp2 results: native +-16 ULP when the result is a normal f64, +-1 ULP or flushed to zero when subnormal (Miri models +-4 ULP)".into(),
            "termination is judged by a simulated step clock: more than 14+ceil(log2(p+2)) iterations, or an iterate whose decimal exponent leaves e0 +- (64+2p), counts as non-termination".into(),
            "default build configuration: Context::default() is (100, HalfEven)".into(),
            "when the result and 1/x straddle a power of ten, the coarser of the two p-th-digit units is used".into(),
        ]
    }
    fn components(&self) -> Value {
        json!({"real": ["bigdecimal (working tree): inverse, inverse_with_context, 1/x for every primitive one, with_prec, with_precision_round, TryFrom<f64>, libm::exp10", "num-bigint"],
               "stub": ["f64::exp2 result at the initial-guess site (verif_hooks float seam)", "step watchdog on the Newton loop (verif_hooks step seam)", "RefDec oracle"]})
    }
    fn required_reach(&self, _tier: Tier) -> Vec<&'static str> {
        vec![
            "exp2_result_normal",
            "exp2_result_subnormal",
            "exp2_underflowed_natively_fallback_guess",
            "fallback_guess_used",
            "flush_subnormal_diverted_to_fallback",
            "exact_reciprocal_fits_precision",
            "one_over_x_compared_with_inverse",
            "exp2_ulp+16",
            "exp2_ulp-16",
            "exp2_tie_at_1075_bits",
            "exp2_flush_subnormal",
        ]
    }
    fn enumerated_runs(&self, tier: Tier) -> u64 {
        GRID + GRID2 + GRID3 + GRID4 + grid5(tier)
    }
    fn stall_is_violation(&self) -> Option<(&'static str, u64)> {
        // C12 states termination. The step clock covers the Newton loop; anything else that fails to
        // return (a run normally takes well under a second) is caught by this wall-clock backstop.
        Some(("L1-terminates", 180))
    }
    fn exhaustive_note(&self, _tier: Tier) -> Option<String> {
        Some("grids: every coefficient below 10^5 x p = 1..4 (thorough: below 10^6 x p = 1..5), native exp2; coefficients 1..12 x every precision 1..150; every 3-digit prefix x 1..22 digits x p = 1..3 (native exp2); every x = 99..9 and 100..01 (1..60 nines / zeros) x 16 precisions placed relative to the length x 7 modes; every x = 2^i 5^j (i <= 60, j <= 30; random sign and power-of-ten scale) x precisions {L-1, L, L+1, L+2} around the exact length L of 1/x x all 7 modes is enumerated; per execution the admissible exp2 set is enumerated".into())
    }
}

#[allow(dead_code)]
fn unused(_: &BigUint) -> BigUint {
    pow10(0)
}
