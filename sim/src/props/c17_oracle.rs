//! Reference decode for C17: what a frame's JSON *should* decode to, field by field, derived from
//! the bytes that arrived (serde_json::Value for structure, the harness's numeral parser for numbers).

use crate::refdec::{is_json_number, parse_numeral};
use bigdecimal::num_bigint::BigInt;
use bigdecimal::BigDecimal;
use serde_json::Value;
use std::str::FromStr;

pub const SCALE_LIMIT: i128 = 150_000;

/// (unscaled integer, scale)
pub type Num = (BigInt, i64);

#[derive(Clone, Debug, PartialEq)]
pub enum Exp<T> {
    /// must decode to exactly this
    Ok(T),
    /// must be reported as an error
    Err(&'static str),
    /// the statement promises nothing here (or the reference cannot model it): only "no panic"
    Unknown(&'static str),
}

#[derive(Clone, Debug, PartialEq)]
pub struct RefFrame {
    pub id: u64,
    pub plain: Num,
    pub num: Num,
    pub opt: Option<Num>,
    pub list: Vec<Num>,
    pub optplain: Option<Num>,
}

#[derive(Clone, Copy, PartialEq, Debug)]
pub enum Kind {
    Plain,
    JsonNum,
    JsonNumOption,
}

fn numeral_expectation(text: &str) -> Exp<Num> {
    match parse_numeral(text) {
        Some(n) => match i64::try_from(n.scale) {
            Ok(s) => Exp::Ok((n.int, s)),
            Err(_) => Exp::Err("exponent pushes the scale outside the 64-bit range"),
        },
        None => Exp::Err("not a numeral"),
    }
}

/// What the text of a JSON *string* must decode to: the crate's own FromStr decides acceptance
/// (its grammar has '_' separators etc., which is C05's business); for strict numerals the
/// reference parser must agree, which the caller checks via `string_reference_agrees`.
pub fn string_expectation(s: &str) -> Exp<Num> {
    // text without even the permissive shape of a numeral is "non-numeric input": an error, whatever the parser says
    if !crate::refdec::has_numeral_shape(s) {
        return Exp::Err("string does not have the shape of a decimal numeral");
    }
    match crate::framework::catch(|| BigDecimal::from_str(s)) {
        Ok(Ok(d)) => {
            let (i, sc) = d.as_bigint_and_exponent();
            Exp::Ok((i, sc))
        }
        Ok(Err(_)) => Exp::Err("string is not a decimal numeral"),
        Err(_) => Exp::Err("parser panicked"),
    }
}

/// Does the crate's parser agree with the reference reading of this string?
/// - strict (JSON-grammar) numerals: accepted or rejected exactly as the reference says, same digits and scale;
/// - other strings with the permissive numeral shape ('_' separators, leading '+', ".5", "5."): the crate may
///   reject them (its exact grammar is property C05's subject), but if it accepts, the value must be the
///   reference reading with the separators removed;
/// - anything else: None (string_expectation already demands an error).
pub fn string_reference_agrees(s: &str) -> Option<bool> {
    if is_json_number(s) {
        let want = numeral_expectation(s);
        let got = string_expectation(s);
        return Some(match (want, got) {
            (Exp::Ok(a), Exp::Ok(b)) => a == b,
            (Exp::Err(_), Exp::Err(_)) => true,
            _ => false,
        });
    }
    let lenient = crate::refdec::parse_numeral_lenient(s)?;
    match string_expectation(s) {
        Exp::Ok((i, sc)) => Some(i == lenient.int && sc as i128 == lenient.scale),
        _ => Some(true),
    }
}

pub fn field_expectation(kind: Kind, v: &Value) -> Exp<Option<Num>> {
    let limited = |e: Exp<Num>| -> Exp<Option<Num>> {
        match e {
            Exp::Ok((i, s)) => {
                if kind != Kind::Plain && (s as i128).abs() > SCALE_LIMIT {
                    Exp::Err("exponent beyond the configured limit")
                } else {
                    Exp::Ok(Some((i, s)))
                }
            }
            Exp::Err(m) => Exp::Err(m),
            Exp::Unknown(m) => Exp::Unknown(m),
        }
    };
    match v {
        Value::Number(n) => limited(numeral_expectation(n.as_str())),
        Value::String(s) => match kind {
            Kind::JsonNumOption => Exp::Unknown("json_num_option and numeric strings: nothing promised"),
            _ => limited(string_expectation(s)),
        },
        Value::Null => match kind {
            Kind::JsonNumOption => Exp::Ok(None),
            _ => Exp::Err("null where a decimal is required"),
        },
        _ => Exp::Err("non-numeric JSON value"),
    }
}

fn some<T>(e: Exp<Option<T>>) -> Exp<T> {
    match e {
        Exp::Ok(Some(x)) => Exp::Ok(x),
        Exp::Ok(None) => Exp::Err("null where a decimal is required"),
        Exp::Err(m) => Exp::Err(m),
        Exp::Unknown(m) => Exp::Unknown(m),
    }
}

/// Expectation for a whole frame. Err dominates Unknown.
pub fn frame_expectation(v: &Value) -> Exp<RefFrame> {
    frame_expectation_opt(v, true)
}

/// `with_id` = false: the consumer's type has no `id` field (it is then an ignored unknown key)
pub fn frame_expectation_opt(v: &Value, with_id: bool) -> Exp<RefFrame> {
    let o = match v.as_object() {
        Some(o) => o,
        None => return Exp::Err("frame is not an object"),
    };
    let mut unknown: Option<&'static str> = None;
    let mut err: Option<&'static str> = None;
    macro_rules! take {
        ($e:expr, $default:expr) => {
            match $e {
                Exp::Ok(x) => x,
                Exp::Err(m) => {
                    err.get_or_insert(m);
                    $default
                }
                Exp::Unknown(m) => {
                    unknown.get_or_insert(m);
                    $default
                }
            }
        };
    }
    let zero: Num = (BigInt::from(0), 0);
    let id = match o.get("id") {
        _ if !with_id => u64::MAX,
        None => {
            err.get_or_insert("missing field id");
            0
        }
        Some(Value::Number(n)) => {
            let t = n.as_str();
            if !t.is_empty() && t.bytes().all(|b| b.is_ascii_digit()) {
                match t.parse::<u64>() {
                    Ok(x) => x,
                    Err(_) => {
                        err.get_or_insert("id does not fit u64");
                        0
                    }
                }
            } else {
                unknown.get_or_insert("id is a number with sign/fraction/exponent: serde_json's integer coercion is not modelled");
                0
            }
        }
        Some(_) => {
            err.get_or_insert("id is not a number");
            0
        }
    };
    let plain = match o.get("plain") {
        None => {
            err.get_or_insert("missing field plain");
            zero.clone()
        }
        Some(x) => take!(some(field_expectation(Kind::Plain, x)), zero.clone()),
    };
    let num = match o.get("num") {
        None => {
            err.get_or_insert("missing field num");
            zero.clone()
        }
        Some(x) => take!(some(field_expectation(Kind::JsonNum, x)), zero.clone()),
    };
    let opt = match o.get("opt") {
        None => {
            err.get_or_insert("missing field opt (deserialize_with disables the Option default)");
            None
        }
        Some(x) => take!(field_expectation(Kind::JsonNumOption, x), None),
    };
    let list = match o.get("list") {
        None => {
            err.get_or_insert("missing field list");
            vec![]
        }
        Some(Value::Array(a)) => a.iter().map(|x| take!(some(field_expectation(Kind::Plain, x)), zero.clone())).collect(),
        Some(_) => {
            err.get_or_insert("list is not an array");
            vec![]
        }
    };
    let optplain = match o.get("optplain") {
        None | Some(Value::Null) => None,
        Some(x) => Some(take!(some(field_expectation(Kind::Plain, x)), zero.clone())),
    };
    if let Some(m) = err {
        return Exp::Err(m);
    }
    if let Some(m) = unknown {
        return Exp::Unknown(m);
    }
    Exp::Ok(RefFrame { id, plain, num, opt, list, optplain })
}
