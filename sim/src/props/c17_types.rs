//! C17 trace types and generators.

use crate::env::peer::Token;
use crate::env::pipe::IoPlan;
use crate::env::sink::SinkSpec;
use crate::gen::{self, ValueCfg};
use crate::prng::Rng;
use crate::refdec::Dec;
use serde::{Deserialize, Serialize};

#[derive(Clone, Debug, Serialize, Deserialize, PartialEq)]
pub struct FrameSpec {
    pub id: u64,
    pub plain: Dec,
    pub num: Dec,
    pub opt: Option<Dec>,
    pub list: Vec<Dec>,
    pub optplain: Option<Dec>,
}

/// A frame emitted by a foreign producer: raw JSON fragments per field
#[derive(Clone, Debug, Serialize, Deserialize, PartialEq)]
pub struct ForeignSpec {
    pub id: u64,
    pub plain: String,
    pub num: String,
    pub opt: String,
    pub list: Vec<String>,
    pub optplain: Option<String>,
    /// insignificant whitespace between tokens
    pub spaced: bool,
}

impl ForeignSpec {
    pub fn text(&self) -> String {
        let sp = if self.spaced { " " } else { "" };
        let mut s = format!("{{{sp}\"id\":{sp}{}", self.id);
        s.push_str(&format!(",{sp}\"plain\":{sp}{}", self.plain));
        s.push_str(&format!(",{sp}\"num\":{sp}{}", self.num));
        s.push_str(&format!(",{sp}\"opt\":{sp}{}", self.opt));
        s.push_str(&format!(",{sp}\"list\":{sp}[{}]", self.list.join(if self.spaced { ", " } else { "," })));
        if let Some(o) = &self.optplain {
            s.push_str(&format!(",{sp}\"optplain\":{sp}{}", o));
        }
        s.push_str(&format!("{sp}}}"));
        s
    }
}

#[derive(Clone, Debug, Serialize, Deserialize, PartialEq)]
#[serde(rename_all = "snake_case")]
pub enum FrameSrc {
    Typed(FrameSpec),
    Foreign(ForeignSpec),
}

#[derive(Clone, Copy, Debug, Serialize, Deserialize, PartialEq, Eq)]
#[serde(rename_all = "snake_case")]
pub enum Producer {
    /// serde_json::to_writer straight onto the channel
    ToWriter,
    /// serde_json::to_vec, then write_all
    ToVec,
    /// serde_json::to_writer_pretty straight onto the channel (more, smaller writes; whitespace in the stream)
    ToWriterPretty,
}

#[derive(Clone, Copy, Debug, Serialize, Deserialize, PartialEq, Eq)]
#[serde(rename_all = "snake_case")]
pub enum Consumer {
    FromReader,
    /// from_reader over a BufReader of this capacity
    FromReaderBuffered(usize),
    FromSlice,
    FromStr,
    /// StreamDeserializer over a reader (several newline-separated frames)
    StreamReader,
    /// StreamDeserializer over a slice
    StreamSlice,
    /// from_slice::<Value>, then from_value::<Frame>
    ViaValue,
    /// newline-delimited: every line decoded on its own with from_slice, the consumer carries on after a
    /// rejected line (so a rejected frame is followed by further decimals parsed by the same thread)
    Lines,
    /// the decimals sit behind #[serde(flatten)] (serde buffers them as Content before bigdecimal sees them)
    FlattenSlice,
    FlattenReader,
    /// the decimals sit inside an untagged enum (buffered as Content, replayed to each variant)
    UntaggedSlice,
}

impl Consumer {
    pub fn code(self) -> u64 {
        match self {
            Consumer::FromReader => 0,
            Consumer::FromReaderBuffered(_) => 1,
            Consumer::FromSlice => 2,
            Consumer::FromStr => 3,
            Consumer::StreamReader => 4,
            Consumer::StreamSlice => 5,
            Consumer::ViaValue => 6,
            Consumer::Lines => 7,
            Consumer::FlattenSlice => 8,
            Consumer::FlattenReader => 9,
            Consumer::UntaggedSlice => 10,
        }
    }
    pub fn is_stream(self) -> bool {
        matches!(self, Consumer::StreamReader | Consumer::StreamSlice)
    }
    /// several frames in one trace
    pub fn multi(self) -> bool {
        self.is_stream() || self == Consumer::Lines
    }
    pub fn uses_reader(self) -> bool {
        matches!(self, Consumer::FromReader | Consumer::FromReaderBuffered(_) | Consumer::StreamReader | Consumer::FlattenReader)
    }
    pub fn name(self) -> &'static str {
        match self {
            Consumer::FromReader => "from_reader",
            Consumer::FromReaderBuffered(_) => "from_reader_buffered",
            Consumer::FromSlice => "from_slice",
            Consumer::FromStr => "from_str",
            Consumer::StreamReader => "stream_reader",
            Consumer::StreamSlice => "stream_slice",
            Consumer::ViaValue => "via_value",
            Consumer::Lines => "lines",
            Consumer::FlattenSlice => "flatten_slice",
            Consumer::FlattenReader => "flatten_reader",
            Consumer::UntaggedSlice => "untagged_slice",
        }
    }
}

#[derive(Clone, Debug, Serialize, Deserialize, PartialEq)]
pub struct Corruption {
    /// Some(k): inside the k-th numeral-like span of the delivered bytes (modulo their number); None: anywhere
    pub numeral: Option<usize>,
    /// position inside the span / the stream, in thousandths
    pub pos_permille: u16,
    /// Some(b): substitute this byte; None: flip bit `bit`
    pub byte: Option<u8>,
    pub bit: u8,
}

#[derive(Clone, Debug, Serialize, Deserialize, PartialEq)]
pub struct Wire {
    pub frames: Vec<FrameSrc>,
    pub producer: Producer,
    pub consumer: Consumer,
    pub wplan: IoPlan,
    pub rplan: IoPlan,
    pub corrupt: Vec<Corruption>,
}

#[derive(Clone, Copy, Debug, Serialize, Deserialize, PartialEq, Eq)]
#[serde(rename_all = "snake_case")]
pub enum Target {
    Plain,
    OptionPlain,
    JsonNum,
    /// Deserialize::deserialize_in_place into an existing value with another scale and sign
    InPlace,
}

#[derive(Clone, Debug, Serialize, Deserialize, PartialEq)]
#[serde(rename_all = "snake_case")]
pub enum SinkSel {
    All,
    One(SinkSpec),
}

#[derive(Clone, Debug, Serialize, Deserialize, PartialEq)]
#[serde(tag = "scenario", rename_all = "snake_case")]
pub enum Trace {
    Wire(Wire),
    Token { token: Token, target: Target },
    SerPeer { value: Dec, human_readable: bool, sink: SinkSel },
}

// ---------------------------------------------------------------- generators

pub fn gen_value(rng: &mut Rng) -> Dec {
    if rng.chance(1, 25) {
        // far outside the adapters' limit, at the edges of the scale's integer type: the string form has
        // no limit and must still round-trip; the JSON-number adapters must refuse
        let scales: [i64; 12] = [i64::MIN, i64::MIN + 1, i64::MAX, i64::MAX - 1, 1 << 31, -(1 << 31), (1 << 31) - 1, 1 << 32, -(1 << 32), 1_000_000_000_000_000, -1_000_000_000_000_000, -(1 << 31) - 1];
        let digits = ["1", "7", "12", "999", "100", "123456789012345678901234567890"];
        let d: &str = *rng.pick(&digits);
        let neg = rng.chance(1, 2);
        return Dec::new(neg, d, *rng.pick(&scales));
    }
    match rng.below(10) {
        // at and around the scale limit of the JSON-number adapters
        0 | 1 => {
            let cfg = ValueCfg::swarm(rng, 40, 10);
            let (digits, _) = gen::gen_digits(rng, &cfg);
            let nd = digits.len() as i64;
            // scale such that |scale| is at the limit, or such that the *printed* exponent is
            let base = 150_000 + rng.range(-2, 2);
            let scale = match rng.below(4) {
                0 => base,
                1 => -base,
                2 => base + nd - 1,
                _ => -(base - nd + 1),
            };
            Dec::new(rng.chance(1, 2), &digits, scale)
        }
        // zero with positive and negative scales
        2 => {
            if rng.chance(1, 4) {
                let base = 150_000 + rng.range(-2, 2);
                return Dec::new(false, "0", if rng.chance(1, 2) { base } else { -base });
            }
            let scale = match rng.below(4) {
                0 => rng.range(-15, -1),
                1 => rng.range(1, 12),
                2 => rng.range(-40, 40),
                _ => rng.range(-150_000, 150_000),
            };
            Dec::new(false, "0", scale)
        }
        _ => {
            let cfg = ValueCfg::swarm(rng, 400, 150_000);
            gen::gen_dec(rng, &cfg).0
        }
    }
}

pub fn gen_frame_spec(rng: &mut Rng, id: u64) -> FrameSpec {
    let nlist = rng.below(4) as usize;
    FrameSpec {
        id,
        plain: gen_value(rng),
        num: gen_value(rng),
        opt: if rng.chance(1, 4) { None } else { Some(gen_value(rng)) },
        list: (0..nlist).map(|_| gen_value(rng)).collect(),
        optplain: if rng.chance(1, 3) { None } else { Some(gen_value(rng)) },
    }
}

const MALFORMED: [&str; 32] = [
    "+1", "01", "1.", ".5", "1e", "--1", "1_0", "NaN", "0x10", "", "1e+", "-", "1.5.2", "1e5e5", "Infinity", "1,5", "1e+-5", "1e++5", "1e-+5", "1e--5", "+-1", ".-7", ".+6", "-.5", "1e5.", "1e 5", "1e0_5", "\\u0663", "1\\u0000",
    " 1", "1 ", "._5",
];

/// A JSON number literal as a foreign producer might write it
pub fn gen_numeral(rng: &mut Rng) -> String {
    let mut s = String::new();
    if rng.chance(1, 3) {
        s.push('-');
    }
    let int_len = match rng.below(8) {
        0 => 0usize,
        1..=4 => 1 + rng.below(6) as usize,
        5 | 6 => 1 + rng.below(60) as usize,
        _ => 1 + rng.below(2000) as usize,
    };
    if int_len == 0 {
        s.push('0');
    } else {
        s.push((b'1' + rng.below(9) as u8) as char);
        for _ in 1..int_len {
            s.push((b'0' + rng.below(10) as u8) as char);
        }
    }
    if rng.chance(1, 2) {
        s.push('.');
        let fl = match rng.below(6) {
            0..=3 => 1 + rng.below(8) as usize,
            4 => 1 + rng.below(60) as usize,
            _ => 1 + rng.below(1500) as usize,
        };
        for i in 0..fl {
            // trailing zeros on purpose: they must survive
            let c = if i + 3 > fl && rng.chance(1, 2) { b'0' } else { b'0' + rng.below(10) as u8 };
            s.push(c as char);
        }
    }
    if rng.chance(1, 3) {
        s.push(if rng.chance(1, 2) { 'e' } else { 'E' });
        match rng.below(3) {
            0 => s.push('+'),
            1 => s.push('-'),
            _ => {}
        }
        if rng.chance(1, 6) {
            s.push_str("00");
            if rng.chance(1, 3) {
                // leading zeros are legal in an exponent: make the field longer than any i64 needs
                s.push_str(&"0".repeat(8 + rng.below(40) as usize));
            }
        }
        if rng.chance(1, 16) {
            // exponents at the edge of the 64-bit scale range (and beyond)
            let edges: [&str; 20] = [
                "170141183460469231731687303715884105727",
                "170141183460469231731687303715884105728",
                "170141183460469231731687303715884105726",
                "340282366920938463463374607431768211455",
                "9223372036854775807",
                "9223372036854775808",
                "9223372036854775809",
                "9223372036854775806",
                "18446744073709551615",
                "18446744073709551616",
                "4611686018427387904",
                "99999999999999999999999999999999999999999",
                "2147483647",
                "2147483648",
                "4294967295",
                "4294967296",
                "4294967297",
                "8589934592",
                "4295117296",
                "281474976710656",
            ];
            let e: &str = *rng.pick(&edges);
            s.push_str(e);
            return s;
        }
        let e = match rng.below(8) {
            0..=3 => rng.below(40),
            4 => rng.below(400),
            5 => 150_000 - 3 + rng.below(7),
            6 => rng.log_range(1_000_000_000_000),
            _ => rng.below(160_000),
        };
        s.push_str(&e.to_string());
    }
    s
}

/// A JSON fragment for a decimal field: number, numeric string, malformed numeral (bare or quoted), other JSON
/// long strings that are not numbers, with multi-byte characters at every offset class (error paths
/// that quote or truncate their input must not split a character)
pub fn gen_garbage(rng: &mut Rng) -> String {
    let pieces = ["12500.00 net", "€", "é", "14875.00", " inc VAT ", "٣", "1e5", "0.-777", "e99999999999999999999", "\u{a0}", "approx", "１２３", "-", ".", "7"];
    let target = 20 + rng.below(120) as usize;
    // two shapes that reach the parser's early error paths with a long, non-ASCII mantissa: an exponent that
    // fits i128 but not the scale, and a sign directly after the decimal point
    let shape = rng.below(6);
    if shape < 2 {
        let fill = ["1", "２", "é", "€", "7", "٣", " ", "00", "\u{a0}", "5"];
        let mut s = String::from(if shape == 1 { "0.-" } else { "" });
        while s.len() < target {
            let piece: &str = *rng.pick(&fill);
            s.push_str(piece);
        }
        if shape == 0 {
            let tail: &str = *rng.pick(&["e99999999999999999999", "e-99999999999999999999", "E170141183460469231731687303715884105727"]);
            s.push_str(tail);
        }
        return s;
    }
    let mut s = String::new();
    while s.len() < target {
        let piece: &str = *rng.pick(&pieces);
        s.push_str(piece);
        if rng.chance(1, 3) {
            s.push((b'0' + rng.below(10) as u8) as char);
        }
    }
    s
}

pub fn gen_fragment(rng: &mut Rng, allow_null: bool) -> String {
    if rng.chance(1, 40) {
        return format!("\"{}\"", gen_garbage(rng));
    }
    if rng.chance(1, 40) {
        // zero with an exponent at, just inside and just beyond the adapters' limit
        let e = 150_000 - 2 + rng.below(5);
        return format!("{}0{}e{}{}", if rng.chance(1, 4) { "-" } else { "" }, if rng.chance(1, 2) { ".000" } else { "" }, if rng.chance(1, 2) { "-" } else { "" }, e);
    }
    match rng.below(20) {
        0..=10 => gen_numeral(rng),
        11..=13 => format!("\"{}\"", gen_numeral(rng)),
        14 => rng.pick(&MALFORMED).to_string(),
        15 => format!("\"{}\"", rng.pick(&MALFORMED)),
        16 => {
            if allow_null {
                "null".into()
            } else {
                gen_numeral(rng)
            }
        }
        17 => rng.pick(&["true", "false", "null", "[]", "{}", "[1]", "{\"a\":1}", "\"abc\"", "\" 1\"", "\"1 \""]).to_string(),
        _ => {
            // small, human-looking numbers
            let v = rng.below(100_000);
            let k = rng.below(6);
            if k == 0 {
                v.to_string()
            } else {
                let s = format!("{:0width$}", v, width = k as usize + 1);
                format!("{}.{}", &s[..s.len() - k as usize], &s[s.len() - k as usize..])
            }
        }
    }
}

pub fn gen_foreign(rng: &mut Rng, id: u64) -> ForeignSpec {
    let nlist = rng.below(4) as usize;
    ForeignSpec {
        id,
        plain: gen_fragment(rng, false),
        num: gen_fragment(rng, false),
        opt: if rng.chance(1, 4) { "null".into() } else { gen_fragment(rng, true) },
        list: (0..nlist).map(|_| gen_fragment(rng, false)).collect(),
        optplain: match rng.below(4) {
            0 => None,
            1 => Some("null".into()),
            _ => Some(gen_fragment(rng, true)),
        },
        spaced: rng.chance(1, 3),
    }
}

pub fn gen_ioplan(rng: &mut Rng, approx_len: u64, reader: bool, allow_hard: bool) -> IoPlan {
    let mut p = IoPlan::default();
    if rng.chance(1, 2) {
        let n = 1 + rng.below(4) as usize;
        p.max_chunk = (0..n)
            .map(|_| {
                let hi = if rng.chance(1, 2) { 4 } else { 64 };
                1 + rng.below(hi) as usize
            })
            .collect();
    }
    if rng.chance(1, 3) {
        let n = 1 + rng.below(4);
        let span = if reader { approx_len.max(4) } else { 40 };
        p.interrupts = (0..n).map(|_| rng.below(span)).collect();
        p.interrupts.sort();
        p.interrupts.dedup();
    }
    if allow_hard && rng.chance(1, 3) {
        let k = rng.below(approx_len.max(1) + 2);
        if reader && rng.chance(1, 2) {
            p.eof_at = Some(k);
        } else {
            p.hard_error_at = Some(k);
            if !reader && rng.chance(1, 2) {
                p.hard_error_transient = true;
            }
        }
    }
    p
}

pub fn gen_token(rng: &mut Rng) -> Token {
    let text = |rng: &mut Rng| -> String {
        if rng.chance(1, 12) {
            return gen_garbage(rng);
        }
        match rng.below(7) {
            0 => rng.pick(&MALFORMED).to_string(),
            6 => {
                // a numeral with one character inserted, deleted or replaced
                let mut t: Vec<char> = gen_numeral(rng).chars().take(40).collect();
                let pos = rng.below(t.len() as u64 + 1) as usize;
                let c = *rng.pick(&['+', '-', '.', 'e', 'E', '_', ' ', 'x', '0']);
                match rng.below(3) {
                    0 => t.insert(pos, c),
                    1 if pos < t.len() => {
                        t.remove(pos);
                    }
                    _ if pos < t.len() => t[pos] = c,
                    _ => t.push(c),
                }
                t.into_iter().collect()
            }
            1 => {
                let cfg = ValueCfg::swarm(rng, 60, 200_000);
                gen::gen_dec(rng, &cfg).0.to_bd().to_string()
            }
            _ => gen_numeral(rng),
        }
    };
    let edge = |rng: &mut Rng, min: i128, max: i128| -> i128 {
        match rng.below(6) {
            0 => 0,
            1 => 1.min(max),
            2 => (-1i128).max(min),
            3 => min,
            4 => max,
            _ => {
                let raw = (rng.next_u64() as u128) << 64 | rng.next_u64() as u128;
                match max.checked_sub(min) {
                    Some(span) => min + (raw % (span as u128 + 1)) as i128,
                    None => raw as i128, // the full i128 range
                }
            }
        }
    };
    match rng.below(30) {
        0 => Token::Str(text(rng)),
        1 => Token::BorrowedStr(text(rng)),
        2 => Token::String(text(rng)),
        3 => Token::I8(edge(rng, i8::MIN as i128, i8::MAX as i128) as i8),
        4 => Token::I16(edge(rng, i16::MIN as i128, i16::MAX as i128) as i16),
        5 => Token::I32(edge(rng, i32::MIN as i128, i32::MAX as i128) as i32),
        6 => Token::I64(edge(rng, i64::MIN as i128, i64::MAX as i128) as i64),
        7 => Token::I128(edge(rng, i128::MIN, i128::MAX).to_string()),
        8 => Token::U8(edge(rng, 0, u8::MAX as i128) as u8),
        9 => Token::U16(edge(rng, 0, u16::MAX as i128) as u16),
        10 => Token::U32(edge(rng, 0, u32::MAX as i128) as u32),
        11 => Token::U64(edge(rng, 0, u64::MAX as i128) as u64),
        12 => {
            let v: u128 = match rng.below(4) {
                0 => 0,
                1 => u128::MAX,
                2 => u64::MAX as u128 + 1,
                _ => (rng.next_u64() as u128) << 64 | rng.next_u64() as u128,
            };
            Token::U128(v.to_string())
        }
        13 | 14 => {
            let bits = match rng.below(6) {
                0 => *rng.pick(&[0u32, 0x8000_0000, 1, 0x007F_FFFF, 0x0080_0000, 0x7F7F_FFFF, 0x7F80_0000, 0xFF80_0000, 0x7FC0_0000, 0x3F80_0000]),
                1 => rng.below(1 << 23) as u32 | ((rng.below(2) as u32) << 31),
                _ => rng.next_u64() as u32,
            };
            Token::F32 { bits }
        }
        15 | 16 => {
            let bits = match rng.below(6) {
                0 => *rng.pick(&[0u64, 1 << 63, 1, (1 << 52) - 1, 1 << 52, f64::MAX.to_bits(), f64::INFINITY.to_bits(), f64::NEG_INFINITY.to_bits(), f64::NAN.to_bits(), 0.1f64.to_bits()]),
                1 => rng.below(1 << 52) | (rng.below(2) << 63),
                _ => rng.next_u64(),
            };
            Token::F64 { bits }
        }
        17..=19 => Token::MapNumber(text(rng)),
        20 => Token::MapNumberValueInt(rng.range(-1000, 1000)),
        21 => Token::MapWrongKey(rng.pick(&["value", "$serde_json::private::Numbe", "$serde_json::private::RawValue", "", "number", "my::private::Number", "::private::Number", "x$serde_json::private::Number", "$serde_json::private::Number ", "$SERDE_JSON::PRIVATE::NUMBER", "$serde_json::private::Number2"]).to_string()),
        22 => Token::MapEmpty,
        23 => Token::MapKeyError,
        24 => Token::MapValueError,
        25 => match rng.below(5) {
            0 => Token::Bool(rng.chance(1, 2)),
            1 => Token::Char(*rng.pick(&['1', 'x', '-', '٣'])),
            2 => Token::Bytes(b"12.5".to_vec()),
            3 => Token::Unit,
            _ => Token::Seq,
        },
        26 => Token::None,
        27 => Token::Some(Box::new(Token::Str(text(rng)))),
        28 => Token::Some(Box::new(Token::I64(rng.range(-5, 5)))),
        _ => Token::Newtype(Box::new(Token::Str(text(rng)))),
    }
}
