//! C17 - serde round-trips every decimal; JSON numbers are read digit for digit.
//!
//! Simulated system: producer (real serde_json or a foreign JSON writer) -> byte channel executing
//! a fault plan -> consumer (real serde_json in five configurations); plus a token-level serde peer.

use super::c17_oracle::{frame_expectation_opt, string_reference_agrees, Exp, Num, RefFrame, SCALE_LIMIT};
use super::c17_types::*;
use crate::env::peer::{PeerError, RecSerializer, SerRecord, Token, TokenDe, PEER_SINK_ERROR};
use crate::env::pipe::{IoPlan, SimReader, SimWriter};
use crate::env::sink::SinkSpec;
use crate::framework::{catch, Failure, Obs, Property, Tier};
use crate::gen;
use crate::prng::Rng;
use crate::refdec::{is_json_number, parse_numeral, Dec, RefDec};
use crate::util::{clip, intern};
use bigdecimal::num_bigint::BigInt;
use bigdecimal::BigDecimal;
use serde::{Deserialize, Serialize};
use serde_json::{json, Value};
use std::io::Write as _;
use std::str::FromStr;

#[derive(Serialize, Deserialize, Debug, Clone)]
pub struct Frame {
    pub id: u64,
    pub plain: BigDecimal,
    #[serde(with = "bigdecimal::serde::json_num")]
    pub num: BigDecimal,
    #[serde(with = "bigdecimal::serde::json_num_option")]
    pub opt: Option<BigDecimal>,
    pub list: Vec<BigDecimal>,
    pub optplain: Option<BigDecimal>,
}

impl Frame {
    fn from_spec(s: &FrameSpec) -> Frame {
        Frame {
            id: s.id,
            // the values travel through identity-like std-trait operations first (chosen by the frame id)
            plain: s.plain.to_bd_via((s.id % 11) as u8),
            num: s.num.to_bd_via((s.id / 11 % 11) as u8),
            opt: s.opt.as_ref().map(|d| d.to_bd_via((s.id / 121 % 11) as u8)),
            list: s.list.iter().map(|d| d.to_bd_via((s.id % 10) as u8)).collect(),
            optplain: s.optplain.as_ref().map(|d| d.to_bd_via((s.id / 3 % 11) as u8)),
        }
    }
}

#[derive(Deserialize, Debug, Clone)]
pub struct FrameBody {
    pub plain: BigDecimal,
    #[serde(with = "bigdecimal::serde::json_num")]
    pub num: BigDecimal,
    #[serde(with = "bigdecimal::serde::json_num_option")]
    pub opt: Option<BigDecimal>,
    pub list: Vec<BigDecimal>,
    pub optplain: Option<BigDecimal>,
}

#[derive(Deserialize, Debug, Clone)]
pub struct FlatOuter {
    pub id: u64,
    #[serde(flatten)]
    pub body: FrameBody,
}

#[derive(Deserialize, Debug, Clone)]
#[serde(untagged)]
pub enum UntaggedFrame {
    Body(FrameBody),
    Other { other: String },
}

impl FrameBody {
    fn into_frame(self, id: u64) -> Frame {
        Frame { id, plain: self.plain, num: self.num, opt: self.opt, list: self.list, optplain: self.optplain }
    }
}

pub struct C17;

fn numof(d: &BigDecimal) -> Num {
    d.as_bigint_and_exponent()
}

fn show(n: &Num) -> String {
    format!("({}, scale {})", clip(&n.0.to_string(), 40), n.1)
}

fn wire_fail(rule: &'static str, w: &Wire, detail: String) -> Failure {
    Failure::new(rule, format!("[{} -> {}] {}", match w.producer { Producer::ToWriter => "to_writer", Producer::ToVec => "to_vec", Producer::ToWriterPretty => "to_writer_pretty" }, w.consumer.name(), detail))
        .fact("scenario", "wire")
        .fact("consumer", w.consumer.name())
        .fact("route", if w.consumer == Consumer::ViaValue { "value" } else { "direct" })
}

/// the exact binary value of text.parse::<f64>(), if finite
fn exact_f64_of_numeral(text: &str) -> Option<RefDec> {
    let f: f64 = text.parse().ok()?;
    if !f.is_finite() {
        return None;
    }
    RefDec::from_f64_bits(f.to_bits())
}

/// serde_json (arbitrary_precision) hands a `Value::Number` to a visitor as f64 exactly when this holds
/// (Number::deserialize_any): not an integer that fits u64/i64, finite as f64, and the text is the float's
/// shortest (ryu) or Display form.
fn value_route_hands_over_f64(text: &str) -> bool {
    if text.parse::<u64>().is_ok() || text.parse::<i64>().is_ok() {
        return false;
    }
    match text.parse::<f64>() {
        Ok(f) if f.is_finite() => ryu::Buffer::new().format_finite(f) == text || f.to_string() == text,
        _ => false,
    }
}

fn handover_fact(w: &Wire, raw: Option<&Value>) -> bool {
    w.consumer == Consumer::ViaValue && matches!(raw, Some(Value::Number(n)) if value_route_hands_over_f64(n.as_str()))
}

fn numeral_spans(bytes: &[u8]) -> Vec<(usize, usize)> {
    let mut out = vec![];
    let mut i = 0;
    while i < bytes.len() {
        let is = |b: u8| b.is_ascii_digit() || matches!(b, b'+' | b'-' | b'.' | b'e' | b'E');
        if is(bytes[i]) {
            let s = i;
            let mut has_digit = false;
            while i < bytes.len() && is(bytes[i]) {
                has_digit |= bytes[i].is_ascii_digit();
                i += 1;
            }
            if has_digit {
                out.push((s, i));
            }
        } else {
            i += 1;
        }
    }
    out
}

fn apply_corruptions(bytes: &mut Vec<u8>, cs: &[Corruption], obs: &mut Obs) -> usize {
    let mut applied = 0;
    for c in cs {
        if bytes.is_empty() {
            break;
        }
        let pos = match c.numeral {
            Some(k) => {
                let spans = numeral_spans(bytes);
                if spans.is_empty() {
                    continue;
                }
                let (s, e) = spans[k % spans.len()];
                s + ((e - s) * c.pos_permille as usize / 1001).min(e - s - 1)
            }
            None => (bytes.len() * c.pos_permille as usize / 1001).min(bytes.len() - 1),
        };
        let old = bytes[pos];
        let new = match c.byte {
            Some(b) => b,
            None => old ^ (1u8 << (c.bit % 8)),
        };
        if new == old {
            continue;
        }
        bytes[pos] = new;
        applied += 1;
        obs.fault(if c.numeral.is_some() { "corrupt_byte_inside_numeral" } else { "corrupt_byte_anywhere" });
        if old.is_ascii_digit() {
            if new.is_ascii_digit() {
                obs.reach("corruption_digit_to_digit");
            } else if new == b'e' || new == b'E' {
                obs.reach("corruption_digit_to_e");
            } else if new == b'.' {
                obs.reach("corruption_digit_to_dot");
            }
        }
    }
    applied
}

struct Consumed {
    items: Vec<Result<Frame, String>>,
    panicked: Option<String>,
    rstats: crate::env::pipe::IoStats,
}

fn consume(w: &Wire, bytes: &[u8]) -> Consumed {
    let mut rstats = crate::env::pipe::IoStats::default();
    let truncated: &[u8] = match w.rplan.eof_at {
        Some(k) if !w.consumer.uses_reader() => &bytes[..(k as usize).min(bytes.len())],
        _ => bytes,
    };
    let r = catch(|| -> Vec<Result<Frame, String>> {
        match w.consumer {
            Consumer::FromReader => {
                let mut rd = SimReader::new(w.rplan.clone(), bytes.to_vec());
                let r = serde_json::from_reader::<_, Frame>(&mut rd).map_err(|e| e.to_string());
                rstats = rd.stats.clone();
                vec![r]
            }
            Consumer::FromReaderBuffered(cap) => {
                let mut rd = SimReader::new(w.rplan.clone(), bytes.to_vec());
                let r = {
                    let br = std::io::BufReader::with_capacity(cap.max(1), &mut rd);
                    serde_json::from_reader::<_, Frame>(br).map_err(|e| e.to_string())
                };
                rstats = rd.stats.clone();
                vec![r]
            }
            Consumer::FromSlice => vec![serde_json::from_slice::<Frame>(truncated).map_err(|e| e.to_string())],
            Consumer::FromStr => match std::str::from_utf8(truncated) {
                Ok(s) => vec![serde_json::from_str::<Frame>(s).map_err(|e| e.to_string())],
                Err(_) => vec![Err("not utf-8".into())],
            },
            Consumer::StreamReader => {
                let mut rd = SimReader::new(w.rplan.clone(), bytes.to_vec());
                let mut out = vec![];
                {
                    let it = serde_json::Deserializer::from_reader(&mut rd).into_iter::<Frame>();
                    for x in it {
                        let e = x.is_err();
                        out.push(x.map_err(|e| e.to_string()));
                        if e || out.len() > 16 {
                            break;
                        }
                    }
                }
                rstats = rd.stats.clone();
                out
            }
            Consumer::StreamSlice => {
                let mut out = vec![];
                for x in serde_json::Deserializer::from_slice(truncated).into_iter::<Frame>() {
                    let e = x.is_err();
                    out.push(x.map_err(|e| e.to_string()));
                    if e || out.len() > 16 {
                        break;
                    }
                }
                out
            }
            Consumer::ViaValue => match serde_json::from_slice::<Value>(truncated) {
                Ok(v) => vec![serde_json::from_value::<Frame>(v).map_err(|e| e.to_string())],
                Err(e) => vec![Err(e.to_string())],
            },
            Consumer::Lines => truncated.split(|&b| b == b'\n').filter(|l| !l.is_empty()).take(16).map(|l| serde_json::from_slice::<Frame>(l).map_err(|e| e.to_string())).collect(),
            Consumer::FlattenSlice => vec![serde_json::from_slice::<FlatOuter>(truncated).map(|o| o.body.into_frame(o.id)).map_err(|e| e.to_string())],
            Consumer::FlattenReader => {
                let mut rd = SimReader::new(w.rplan.clone(), bytes.to_vec());
                let r = serde_json::from_reader::<_, FlatOuter>(&mut rd).map(|o| o.body.into_frame(o.id)).map_err(|e| e.to_string());
                rstats = rd.stats.clone();
                vec![r]
            }
            Consumer::UntaggedSlice => vec![match serde_json::from_slice::<UntaggedFrame>(truncated) {
                Ok(UntaggedFrame::Body(b)) => Ok(b.into_frame(u64::MAX)),
                Ok(UntaggedFrame::Other { .. }) => Err("matched the other variant".to_string()),
                Err(e) => Err(e.to_string()),
            }],
        }
    });
    match r {
        Ok(items) => Consumed { items, panicked: None, rstats },
        Err(m) => Consumed { items: vec![], panicked: Some(m), rstats },
    }
}

/// What the structural reference sees: the same bytes, cut where the reader would stop delivering
fn reference_docs(w: &Wire, bytes: &[u8]) -> Vec<Result<Value, ()>> {
    let mut cut = bytes.len();
    if let Some(k) = w.rplan.eof_at {
        cut = cut.min(k as usize);
    }
    if w.consumer.uses_reader() {
        if let Some(k) = w.rplan.hard_error_at {
            cut = cut.min(k as usize);
        }
    }
    let b = &bytes[..cut];
    if w.consumer == Consumer::Lines {
        return b.split(|&c| c == b'\n').filter(|l| !l.is_empty()).take(16).map(|l| serde_json::from_slice::<Value>(l).map_err(|_| ())).collect();
    }
    if w.consumer.is_stream() {
        let mut out = vec![];
        for x in serde_json::Deserializer::from_slice(b).into_iter::<Value>() {
            let e = x.is_err();
            out.push(x.map_err(|_| ()));
            if e || out.len() > 16 {
                break;
            }
        }
        out
    } else {
        vec![serde_json::from_slice::<Value>(b).map_err(|_| ())]
    }
}

impl C17 {
    fn compare_with_reference(&self, w: &Wire, idx: usize, got: &Frame, want: &RefFrame, doc: &Value, obs: &mut Obs, fails: &mut Vec<Failure>) {
        let mut check = |name: &str, g: Option<&BigDecimal>, wnt: Option<&Num>, raw: Option<&Value>| {
            match (g, wnt) {
                (None, None) => {}
                (Some(g), Some(wn)) => {
                    let gn = numof(g);
                    if gn != *wn {
                        // how did the number travel? (facts for the known-finding predicate)
                        let mut f = wire_fail("J2-digit-for-digit", w, format!("frame {} field {}: decoded {} but the numeral denotes {}", idx, name, show(&gn), show(wn))).fact("field", name.to_string());
                        let mut via_float = false;
                        if let Some(Value::Number(n)) = raw {
                            if let Some(x) = exact_f64_of_numeral(n.as_str()) {
                                via_float = x.value_eq(&RefDec::from_bd(g));
                            }
                        }
                        f = f.fact("observed_is_exact_f64_of_numeral", via_float).fact("value_route_f64_handover", handover_fact(w, raw));
                        f.focus = json!({"frame": idx});
                        fails.push(f);
                    }
                }
                (g, wn) => {
                    let mut f = wire_fail("J2-digit-for-digit", w, format!("frame {} field {}: decoded {:?} but expected {:?}", idx, name, g.map(|x| show(&numof(x))), wn.map(show))).fact("field", name.to_string());
                    f.focus = json!({"frame": idx});
                    fails.push(f);
                }
            }
        };
        let o = doc.as_object();
        let raw = |k: &str| o.and_then(|m| m.get(k));
        check("plain", Some(&got.plain), Some(&want.plain), raw("plain"));
        check("num", Some(&got.num), Some(&want.num), raw("num"));
        check("opt", got.opt.as_ref(), want.opt.as_ref(), raw("opt"));
        check("optplain", got.optplain.as_ref(), want.optplain.as_ref(), raw("optplain"));
        if got.list.len() != want.list.len() {
            fails.push(wire_fail("J2-digit-for-digit", w, format!("frame {}: list has {} elements, expected {}", idx, got.list.len(), want.list.len())).focus(json!({"frame": idx})));
        } else {
            let arr = raw("list").and_then(|v| v.as_array());
            for (i, (g, wn)) in got.list.iter().zip(want.list.iter()).enumerate() {
                check("list", Some(g), Some(wn), arr.and_then(|a| a.get(i)));
            }
        }
        if got.id != want.id && w.consumer != Consumer::UntaggedSlice {
            fails.push(wire_fail("J2-digit-for-digit", w, format!("frame {}: id {} != {}", idx, got.id, want.id)).focus(json!({"frame": idx})));
        }
        obs.reach("frame_compared_with_reference_decode");
    }

    /// end to end: what was decoded vs. what was sent (typed frames, no corruption)
    fn compare_with_sent(&self, w: &Wire, idx: usize, got: &Frame, sent: &FrameSpec, doc: &Value, fails: &mut Vec<Failure>) {
        let o = doc.as_object();
        let raw = |k: &str| o.and_then(|m| m.get(k));
        let mut string_form = |name: &str, g: Option<&BigDecimal>, s: Option<&Dec>| match (g, s) {
            (None, None) => {}
            (Some(g), Some(s)) => {
                let gr = RefDec::from_bd(g);
                let sr = s.to_ref();
                let exempt = (-15..=-1).contains(&s.scale);
                let same = if exempt { gr.value_eq(&sr) } else { gr.int == sr.int && gr.exp == sr.exp };
                if !same {
                    fails.push(
                        wire_fail("J1-roundtrip-string-form", w, format!("frame {} field {}: sent {}e{} came back as {}", idx, name, clip(&s.int, 40), -(s.scale as i128), gr.describe()))
                            .fact("field", name.to_string())
                            .focus(json!({"frame": idx})),
                    );
                }
            }
            (g, s) => fails.push(wire_fail("J1-roundtrip-string-form", w, format!("frame {} field {}: sent {:?} came back as {:?}", idx, name, s.map(|d| &d.int), g.map(|x| x.to_string()))).focus(json!({"frame": idx}))),
        };
        string_form("plain", Some(&got.plain), Some(&sent.plain));
        string_form("optplain", got.optplain.as_ref(), sent.optplain.as_ref());
        if got.list.len() == sent.list.len() {
            for (g, s) in got.list.iter().zip(sent.list.iter()) {
                string_form("list", Some(g), Some(s));
            }
        } else {
            fails.push(wire_fail("J1-roundtrip-string-form", w, format!("frame {}: list length {} != {}", idx, got.list.len(), sent.list.len())).focus(json!({"frame": idx})));
        }
        let mut number_form = |name: &str, g: Option<&BigDecimal>, s: Option<&Dec>| match (g, s) {
            (None, None) => {}
            (Some(g), Some(s)) => {
                if !RefDec::from_bd(g).value_eq(&s.to_ref()) {
                    fails.push(
                        wire_fail("J1-roundtrip-number-form", w, format!("frame {} field {}: sent {}e{} came back as {}", idx, name, clip(&s.int, 40), -(s.scale as i128), RefDec::from_bd(g).describe()))
                            .fact("field", name.to_string())
                            .fact("value_route_f64_handover", handover_fact(w, raw(name)))
                            .focus(json!({"frame": idx})),
                    );
                }
            }
            (g, s) => fails.push(wire_fail("J1-roundtrip-number-form", w, format!("frame {} field {}: sent {:?} came back as {:?}", idx, name, s.map(|d| &d.int), g.map(|x| x.to_string()))).focus(json!({"frame": idx}))),
        };
        number_form("num", Some(&got.num), Some(&sent.num));
        number_form("opt", got.opt.as_ref(), sent.opt.as_ref());
        if got.id != sent.id && w.consumer != Consumer::UntaggedSlice {
            fails.push(wire_fail("J1-roundtrip-string-form", w, format!("frame {}: id {} came back as {}", idx, sent.id, got.id)).focus(json!({"frame": idx})));
        }
    }

    fn exec_wire(&self, w: &Wire, obs: &mut Obs) -> Vec<Failure> {
        let mut fails: Vec<Failure> = vec![];
        // ---------------- producer
        let mut writer = SimWriter::new(w.wplan.clone());
        let mut produced = 0usize;
        let mut producer_failed = false;
        for (i, fs) in w.frames.iter().enumerate() {
            if i > 0 && writer.write_all(b"\n").is_err() {
                producer_failed = true;
                break;
            }
            let before = writer.data.len();
            let hard_before = writer.stats.hard_errors;
            match fs {
                FrameSrc::Foreign(f) => {
                    obs.execs += 1;
                    if writer.write_all(f.text().as_bytes()).is_err() {
                        producer_failed = true;
                        break;
                    }
                }
                FrameSrc::Typed(spec) => {
                    let frame = Frame::from_spec(spec);
                    // fault-free serialization: the reference bytes
                    let pretty = w.producer == Producer::ToWriterPretty;
                    let reference = catch(|| if pretty { serde_json::to_vec_pretty(&frame) } else { serde_json::to_vec(&frame) });
                    obs.execs += 1;
                    let reference = match reference {
                        Err(m) => {
                            fails.push(wire_fail("J0-no-panic", w, format!("serializing frame {} panicked: {}", i, m)).focus(json!({"frame": i})));
                            break;
                        }
                        Ok(Err(e)) => {
                            // no fault was injected, so this is the adapter refusing a legal decimal
                            let zero_neg = |d: &Dec| d.is_zero() && d.scale < 0;
                            let culprit_zero = zero_neg(&spec.num) || spec.opt.as_ref().map_or(false, zero_neg);
                            fails.push(
                                wire_fail("J1-serializes", w, format!("frame {} cannot be serialized: {} (num = {}e{}, opt = {:?})", i, e, clip(&spec.num.int, 30), -(spec.num.scale as i128), spec.opt.as_ref().map(|d| format!("{}e{}", clip(&d.int, 30), -(d.scale as i128)))))
                                    .fact("zero_with_negative_scale_in_number_adapter", culprit_zero)
                                    .focus(json!({"frame": i})),
                            );
                            break;
                        }
                        Ok(Ok(v)) => v,
                    };
                    let res = match w.producer {
                        Producer::ToWriter => catch(|| serde_json::to_writer(&mut writer, &frame).map_err(|e| e.to_string())),
                        Producer::ToVec => Ok(writer.write_all(&reference).map_err(|e| e.to_string())),
                        Producer::ToWriterPretty => catch(|| serde_json::to_writer_pretty(&mut writer, &frame).map_err(|e| e.to_string())),
                    };
                    obs.execs += 1;
                    let hard_fired = writer.stats.hard_errors > hard_before;
                    match res {
                        Err(m) => {
                            fails.push(wire_fail("J0-no-panic", w, format!("to_writer panicked on frame {}: {}", i, m)).focus(json!({"frame": i})));
                            break;
                        }
                        Ok(Ok(())) => {
                            // J5: acknowledged => the channel holds exactly the to_vec bytes
                            if writer.data[before..] != reference[..] {
                                fails.push(wire_fail("J5-acknowledged-write-is-complete", w, format!("to_writer returned Ok for frame {} but the channel holds {:?} instead of {:?}", i, clip(&String::from_utf8_lossy(&writer.data[before..]), 60), clip(&String::from_utf8_lossy(&reference), 60))).focus(json!({"frame": i})));
                            }
                            if hard_fired {
                                fails.push(wire_fail("J5-acknowledged-write-is-complete", w, format!("to_writer returned Ok for frame {} although the transport reported a hard error", i)).focus(json!({"frame": i})));
                            }
                        }
                        Ok(Err(e)) => {
                            if !hard_fired {
                                fails.push(wire_fail("J5-no-spurious-write-error", w, format!("to_writer failed on frame {} without any transport fault: {}", i, e)).focus(json!({"frame": i})));
                            } else {
                                obs.reach("write_fault_reported_to_producer");
                                // did the fault land while a decimal's Display was on the stack?
                                let off = (writer.data.len() - before).min(reference.len());
                                let spans = numeral_spans(&reference);
                                if spans.iter().any(|&(s, e)| off > s && off < e) {
                                    obs.reach("write_fault_inside_a_decimal");
                                }
                            }
                            producer_failed = true;
                        }
                    }
                    if producer_failed {
                        break;
                    }
                }
            }
            produced = i + 1;
        }
        let _ = produced;
        obs.steps += writer.stats.calls;
        obs.fault_n("write_short", writer.stats.short);
        obs.fault_n("write_interrupted", writer.stats.interrupted);
        obs.fault_n("write_hard_error", writer.stats.hard_errors);
        if !fails.is_empty() {
            return fails;
        }

        // ---------------- channel
        let mut bytes = writer.data;
        let corrupted = apply_corruptions(&mut bytes, &w.corrupt, obs);

        // ---------------- consumer
        let c = consume(w, &bytes);
        obs.execs += 1;
        obs.steps += c.rstats.calls;
        obs.fault_n("read_short", c.rstats.short);
        obs.fault_n("read_interrupted", c.rstats.interrupted);
        obs.fault_n("read_hard_error", c.rstats.hard_errors);
        obs.fault_n("read_torn_eof", c.rstats.eofs);
        if !w.consumer.uses_reader() && w.rplan.eof_at.map_or(false, |k| (k as usize) < bytes.len()) {
            obs.fault("slice_truncated");
        }
        if let Some(m) = c.panicked {
            fails.push(wire_fail("J0-no-panic", w, format!("consumer panicked: {}", m)));
            return fails;
        }
        let refs = reference_docs(w, &bytes);
        let read_fault = c.rstats.hard_errors > 0 || c.rstats.eofs > 0 || producer_failed || (!w.consumer.uses_reader() && w.rplan.eof_at.is_some());
        let any_fault = read_fault || corrupted > 0;
        if any_fault {
            obs.execs_faulted += 1;
        } else {
            obs.execs_fault_free += 1;
        }

        let mut outcome_sig: Vec<u64> = vec![];
        let mut stop = false;
        // a line-by-line consumer carries on after a rejected frame; every other consumer stops at the first error
        let independent = w.consumer == Consumer::Lines;
        for (i, r) in refs.iter().enumerate() {
            if stop && !independent {
                break;
            }
            let got = c.items.get(i);
            match r {
                Err(()) => {
                    // structurally broken here (torn or corrupted): must be an error, never a value
                    outcome_sig.push(1);
                    match got {
                        // With corrupted bytes the structural reference (Value) can be stricter than a typed
                        // parse: serde_json does not validate what it skips (e.g. invalid UTF-8 inside the
                        // string value of a key that corruption made unknown). Nothing of bigdecimal's is
                        // involved there, so only torn (truncated) frames are held to "must be an error".
                        Some(Ok(_)) if corrupted > 0 => obs.reach("corrupted_doc_rejected_by_reference_only(not judged)"),
                        Some(Ok(f)) => fails.push(wire_fail("J3-torn-or-broken-frame-is-an-error", w, format!("document {} is not valid JSON as delivered, yet the consumer returned a value (id {})", i, f.id)).focus(json!({"frame": i}))),
                        Some(Err(_)) => {
                            obs.reach("broken_frame_rejected");
                            if !w.corrupt.is_empty() {
                                obs.reach("corrupted_frame_rejected");
                            }
                        }
                        None => {
                            if !w.consumer.is_stream() {
                                fails.push(wire_fail("J3-torn-or-broken-frame-is-an-error", w, format!("document {}: consumer returned nothing", i)));
                            }
                        }
                    }
                    stop = true;
                }
                Ok(doc) => match frame_expectation_opt(doc, w.consumer != Consumer::UntaggedSlice) {
                    Exp::Unknown(why) => {
                        outcome_sig.push(2);
                        obs.reach(intern(&format!("expectation_unknown:{}", &why[..why.len().min(40)])));
                        if let Some(Err(_)) | None = got {
                            stop = true;
                        }
                    }
                    Exp::Err(why) => {
                        outcome_sig.push(3);
                        match got {
                            Some(Ok(f)) => {
                                let over_limit = why.contains("limit");
                                let mut fl = wire_fail(if over_limit { "J6-limit-and-malformed-are-errors" } else { "J6-limit-and-malformed-are-errors" }, w, format!("document {} must be rejected ({}) but decoded to a value (id {}, num {}, opt {:?})", i, why, f.id, show(&numof(&f.num)), f.opt.as_ref().map(|d| show(&numof(d)))))
                                    .fact("why", why.to_string())
                                    .focus(json!({"frame": i}));
                                // which field is over the limit? (known-finding predicate)
                                let opt_over = f.opt.as_ref().map_or(false, |d| (numof(d).1 as i128).abs() > SCALE_LIMIT);
                                let num_over = (numof(&f.num).1 as i128).abs() > SCALE_LIMIT;
                                fl = fl.fact("only_json_num_option_over_limit", over_limit && opt_over && !num_over);
                                fails.push(fl);
                            }
                            Some(Err(_)) => {
                                obs.reach(intern(&format!("rejected:{}", &why[..why.len().min(40)])));
                            }
                            None => {
                                if !w.consumer.is_stream() || !read_fault {
                                    fails.push(wire_fail("J6-limit-and-malformed-are-errors", w, format!("document {}: consumer returned nothing", i)));
                                }
                            }
                        }
                        stop = true;
                    }
                    Exp::Ok(want) => {
                        outcome_sig.push(0);
                        match got {
                            Some(Ok(f)) => {
                                self.compare_with_reference(w, i, f, &want, doc, obs, &mut fails);
                                if w.corrupt.is_empty() || corrupted == 0 {
                                    if let Some(FrameSrc::Typed(spec)) = w.frames.get(i) {
                                        self.compare_with_sent(w, i, f, spec, doc, &mut fails);
                                        obs.reach("typed_frame_round_tripped");
                                    }
                                } else {
                                    obs.reach("corrupted_frame_decoded_to_what_arrived");
                                }
                            }
                            Some(Err(e)) => {
                                let mut f = wire_fail("J1-intact-frame-decodes", w, format!("document {} is a well-formed frame within all limits but was rejected: {}", i, clip(e, 120))).focus(json!({"frame": i}));
                                f = f.fact("any_fault", any_fault);
                                fails.push(f);
                                stop = true;
                            }
                            None => {
                                fails.push(wire_fail("J1-intact-frame-decodes", w, format!("document {} was delivered intact but the consumer stopped before it", i)).focus(json!({"frame": i})));
                                stop = true;
                            }
                        }
                    }
                },
            }
        }
        // the consumer may report one trailing error (a read fault after the last complete frame), never an extra value
        if !stop && !independent && c.items.len() > refs.len() {
            let extra = &c.items[refs.len()..];
            if extra.iter().any(|x| x.is_ok()) {
                fails.push(wire_fail("J3-torn-or-broken-frame-is-an-error", w, format!("consumer produced {} item(s) beyond the {} documents that arrived", extra.len(), refs.len())));
            } else if !read_fault {
                fails.push(wire_fail("J1-intact-frame-decodes", w, format!("consumer reported an error after the last document although no fault was injected: {:?}", extra.first())));
            }
        }
        // string-route parser vs reference, for strict numerals inside strings of foreign frames
        for fs in &w.frames {
            if let FrameSrc::Foreign(f) = fs {
                for frag in [&f.plain, &f.num].into_iter().chain(f.list.iter()).chain(f.optplain.iter()) {
                    if let Some(inner) = frag.strip_prefix('"').and_then(|x| x.strip_suffix('"')) {
                        if string_reference_agrees(inner) == Some(false) {
                            fails.push(wire_fail("J2-digit-for-digit", w, format!("numeric string {:?}: the crate's parser disagrees with the reference reading", clip(inner, 60))).fact("field", "string"));
                        }
                    }
                }
            }
        }
        let mut sig = vec![17, 1, w.consumer.code(), w.producer as u64, w.frames.len() as u64, w.frames.iter().filter(|f| matches!(f, FrameSrc::Foreign(_))).count() as u64, producer_failed as u64, (c.rstats.hard_errors > 0) as u64, (c.rstats.eofs > 0) as u64, (c.rstats.interrupted > 0) as u64, corrupted as u64];
        sig.extend(outcome_sig);
        obs.sig(&sig, any_fault || writer_faulted(&w.wplan) || c.rstats.interrupted > 0 || c.rstats.short > 0);
        obs.digest(&sig);
        obs.digest(&[crate::prng::hash_bytes(&bytes), c.items.len() as u64, fails.len() as u64]);
        fails
    }

    fn exec_token(&self, token: &Token, target: Target, obs: &mut Obs) -> Vec<Failure> {
        let mut fails = vec![];
        obs.execs += 1;
        obs.steps += 1;
        let tf = |rule: &'static str, detail: String| Failure::new(rule, format!("token {} -> {:?}: {}", clip(&format!("{:?}", token), 90), target, detail)).fact("scenario", "token").fact("token", token.kind()).fact("target", format!("{:?}", target));
        let res: Result<Result<Option<BigDecimal>, PeerError>, String> = catch(|| match target {
            Target::Plain => BigDecimal::deserialize(TokenDe { token }).map(Some),
            Target::OptionPlain => Option::<BigDecimal>::deserialize(TokenDe { token }),
            Target::JsonNum => bigdecimal::serde::json_num::deserialize(TokenDe { token }).map(Some),
            Target::InPlace => {
                let mut place = BigDecimal::new(BigInt::from(-125), 2);
                <BigDecimal as Deserialize>::deserialize_in_place(TokenDe { token }, &mut place).map(|()| Some(place))
            }
        });
        obs.reach(intern(&format!("token:{}", token.kind())));
        let res = match res {
            Err(m) => {
                fails.push(tf("J0-no-panic", format!("panicked: {}", m)));
                return fails;
            }
            Ok(r) => r,
        };
        // expectation
        fn expect(token: &Token) -> Exp<Option<Num>> {
            let from_text = |s: &str| -> Exp<Option<Num>> {
                match super::c17_oracle::string_expectation(s) {
                    Exp::Ok(n) => Exp::Ok(Some(n)),
                    Exp::Err(m) => Exp::Err(m),
                    Exp::Unknown(m) => Exp::Unknown(m),
                }
            };
            match token {
                Token::Str(s) | Token::BorrowedStr(s) | Token::String(s) | Token::MapNumber(s) => from_text(s),
                Token::I8(v) => Exp::Ok(Some((BigInt::from(*v), 0))),
                Token::I16(v) => Exp::Ok(Some((BigInt::from(*v), 0))),
                Token::I32(v) => Exp::Ok(Some((BigInt::from(*v), 0))),
                Token::I64(v) => Exp::Ok(Some((BigInt::from(*v), 0))),
                Token::U8(v) => Exp::Ok(Some((BigInt::from(*v), 0))),
                Token::U16(v) => Exp::Ok(Some((BigInt::from(*v), 0))),
                Token::U32(v) => Exp::Ok(Some((BigInt::from(*v), 0))),
                Token::U64(v) => Exp::Ok(Some((BigInt::from(*v), 0))),
                Token::I128(s) | Token::U128(s) => match BigInt::from_str(s) {
                    Ok(i) => Exp::Ok(Some((i, 0))),
                    Err(_) => Exp::Unknown("bad token"),
                },
                Token::F32 { .. } | Token::F64 { .. } => Exp::Unknown("float: judged by value"),
                Token::MapNumberValueInt(v) => Exp::Ok(Some((BigInt::from(*v), 0))),
                Token::MapWrongKey(_) | Token::MapEmpty | Token::MapKeyError | Token::MapValueError => Exp::Err("map without the number key / peer error"),
                // serde's default visit_char forwards to visit_str
                Token::Char(c) => from_text(&c.to_string()),
                Token::Bool(_) | Token::Bytes(_) | Token::Unit | Token::Seq => Exp::Err("non-numeric token"),
                Token::None => Exp::Err("none where a decimal is required"),
                Token::Some(_) | Token::Newtype(_) => Exp::Err("wrapper token where a decimal is required"),
            }
        }
        let mut want: Exp<Option<Num>> = match (target, token) {
            (Target::OptionPlain, Token::None) | (Target::OptionPlain, Token::Unit) => Exp::Ok(None),
            (Target::OptionPlain, Token::Some(inner)) => expect(inner),
            _ => expect(token),
        };
        // floats: exact binary value, NaN / infinities are errors
        let float_parts: Option<Option<RefDec>> = match token {
            Token::F32 { bits } => Some(RefDec::from_f32_bits(*bits)),
            Token::F64 { bits } => Some(RefDec::from_f64_bits(*bits)),
            _ => None,
        };
        if let Some(fp) = &float_parts {
            match fp {
                None => want = Exp::Err("NaN or infinity"),
                Some(x) => match &res {
                    Ok(Some(d)) => {
                        if !RefDec::from_bd(d).value_eq(x) {
                            fails.push(tf("J7-foreign-tokens-convert-exactly", format!("float token converted to {} instead of its exact binary value {}", clip(&d.to_string(), 60), x.describe())));
                        }
                        obs.reach("float_token_exact");
                        return fails;
                    }
                    other => {
                        fails.push(tf("J7-foreign-tokens-convert-exactly", format!("finite float token gave {:?}", other.as_ref().map(|o| o.as_ref().map(|d| d.to_string())))));
                        return fails;
                    }
                },
            }
        }
        // the JSON-number adapter applies the scale limit
        if target == Target::JsonNum {
            if let Exp::Ok(Some((_, s))) = &want {
                if (*s as i128).abs() > SCALE_LIMIT {
                    want = Exp::Err("exponent beyond the configured limit");
                    obs.reach("token_scale_beyond_limit");
                }
            }
        }
        // strict numerals must also agree with the reference parser
        if let Token::Str(s) | Token::BorrowedStr(s) | Token::String(s) | Token::MapNumber(s) = token {
            if string_reference_agrees(s) == Some(false) {
                fails.push(tf("J2-digit-for-digit", format!("text {:?}: the crate's parser disagrees with the reference reading", clip(s, 60))));
            }
            if is_json_number(s) {
                obs.reach("token_text_is_strict_numeral");
            }
            let _ = parse_numeral;
        }
        let sig_outcome;
        match (&want, &res) {
            (Exp::Unknown(_), _) => sig_outcome = 9,
            (Exp::Err(why), Ok(v)) => {
                sig_outcome = 1;
                fails.push(tf("J7-errors-not-values", format!("expected an error ({}) but got {:?}", why, v.as_ref().map(|d| d.to_string()))).fact("why", why.to_string()));
            }
            (Exp::Err(_), Err(_)) => {
                sig_outcome = 2;
                if matches!(token, Token::MapKeyError | Token::MapValueError) {
                    obs.fault("peer_error_from_map_access");
                }
            }
            (Exp::Ok(wn), Ok(g)) => {
                sig_outcome = 0;
                let gn = g.as_ref().map(numof);
                if gn != *wn {
                    fails.push(tf("J7-foreign-tokens-convert-exactly", format!("decoded {:?}, expected {:?}", gn.as_ref().map(show), wn.as_ref().map(show))));
                }
            }
            (Exp::Ok(wn), Err(e)) => {
                sig_outcome = 3;
                fails.push(tf("J7-foreign-tokens-convert-exactly", format!("expected {:?} but got error {}", wn.as_ref().map(show), e)));
            }
        }
        obs.execs_fault_free += 1;
        obs.sig(&[17, 2, crate::prng::hash_bytes(token.kind().as_bytes()), target as u64, sig_outcome], matches!(token, Token::MapKeyError | Token::MapValueError));
        obs.digest(&[crate::prng::hash_bytes(format!("{:?}", token).as_bytes()), target as u64, sig_outcome]);
        fails
    }

    fn exec_serpeer(&self, value: &Dec, human: bool, sel: &SinkSel, obs: &mut Obs) -> Vec<Failure> {
        let mut fails = vec![];
        let v = value.to_bd();
        let sf = |rule: &'static str, env: &SinkSpec, detail: String| {
            Failure::new(rule, format!("serialize {}e{} to a recording peer [{}]: {}", clip(&value.int, 40), -(value.scale as i128), env.kind(), detail))
                .fact("scenario", "ser_peer")
                .focus(json!({"sink": serde_json::to_value(env).unwrap()}))
        };
        // fault-free
        let mut rec = SerRecord::default();
        let r = catch(|| v.serialize(RecSerializer { rec: &mut rec, human_readable: human, sink: SinkSpec::Unbounded }));
        obs.execs += 1;
        obs.execs_fault_free += 1;
        obs.steps += rec.sink_calls as u64;
        let un = SinkSpec::Unbounded;
        let text = match r {
            Err(m) => {
                fails.push(sf("J0-no-panic", &un, format!("panicked: {}", m)));
                return fails;
            }
            Ok(Err(e)) => {
                fails.push(sf("J8-serializer-peer", &un, format!("failed without a fault: {}", e)));
                return fails;
            }
            Ok(Ok(())) => match (rec.collected.clone(), rec.serialized_str.clone()) {
                (Some(t), _) | (None, Some(t)) => t,
                (None, None) => {
                    fails.push(sf("J8-serializer-peer", &un, format!("the peer received neither collect_str nor serialize_str (calls: {:?})", rec.other_calls)));
                    return fails;
                }
            },
        };
        let display = v.to_string();
        if text != display {
            fails.push(sf("J8-serializer-peer", &un, format!("peer received {:?} but Display is {:?}", clip(&text, 50), clip(&display, 50))));
        }
        // and the text reads back as the same decimal (digits and scale wherever Display preserves them)
        match parse_numeral(&text) {
            Some(n) => {
                let back = RefDec { int: n.int.clone(), exp: -n.scale };
                let orig = value.to_ref();
                let exempt = (-15..=-1).contains(&value.scale);
                let ok = if exempt { back.value_eq(&orig) } else { back.int == orig.int && back.exp == orig.exp };
                if !ok {
                    fails.push(sf("J1-roundtrip-string-form", &un, format!("serialized text {:?} does not denote the original", clip(&text, 50))));
                }
            }
            None => fails.push(sf("J1-roundtrip-string-form", &un, format!("serialized text {:?} is not a numeral", clip(&text, 50)))),
        }
        obs.sig(&[17, 3, gen::len_bucket(value.ndigits()), gen::scale_bucket(value.scale, value.ndigits()), 0], false);
        obs.digest_str(&text);
        // ---- the JSON-number adapters against the same (non-JSON) peer
        {
            // None must arrive as the format's none
            let mut rec = SerRecord::default();
            let none: Option<BigDecimal> = None;
            let r = catch(|| bigdecimal::serde::json_num_option::serialize(&none, RecSerializer { rec: &mut rec, human_readable: human, sink: SinkSpec::Unbounded }));
            obs.execs += 1;
            obs.execs_fault_free += 1;
            match r {
                Err(m) => fails.push(sf("J0-no-panic", &un, format!("json_num_option::serialize(None) panicked: {}", m))),
                Ok(res) => {
                    if res.is_err() || rec.got_none != 1 || rec.got_unit != 0 || !rec.structs.is_empty() || rec.collected.is_some() || rec.serialized_str.is_some() {
                        fails.push(sf("J8-serializer-peer", &un, format!("json_num_option::serialize(None): the peer must receive exactly one serialize_none; it got none x{} unit x{} structs {:?} result {:?}", rec.got_none, rec.got_unit, rec.structs, res)).fact("adapter", "json_num_option_none"));
                    } else {
                        obs.reach("adapter_none_is_none");
                    }
                }
            }
            // a number must arrive as serde_json's number token carrying text that denotes the value
            let within_limit = (value.scale as i128).abs() <= SCALE_LIMIT;
            for which in 0..2 {
                let mut rec = SerRecord::default();
                let r = catch(|| {
                    if which == 0 {
                        bigdecimal::serde::json_num::serialize(&v, RecSerializer { rec: &mut rec, human_readable: human, sink: SinkSpec::Unbounded })
                    } else {
                        bigdecimal::serde::json_num_option::serialize(&Some(v.clone()), RecSerializer { rec: &mut rec, human_readable: human, sink: SinkSpec::Unbounded })
                    }
                });
                obs.execs += 1;
                obs.execs_fault_free += 1;
                let name = if which == 0 { "json_num" } else { "json_num_option" };
                match r {
                    Err(m) => fails.push(sf("J0-no-panic", &un, format!("{}::serialize panicked: {}", name, m))),
                    Ok(Err(e)) => fails.push(sf("J1-serializes", &un, format!("{}::serialize failed on a legal decimal: {}", name, e)).fact("zero_with_negative_scale_in_number_adapter", value.is_zero() && value.scale < 0)),
                    Ok(Ok(())) => match rec.structs.first() {
                        Some((sname, key, Some(text))) if sname == crate::env::peer::PRIVATE_NUMBER_KEY && key == crate::env::peer::PRIVATE_NUMBER_KEY && rec.structs.len() == 1 => {
                            let ok = is_json_number(text) && parse_numeral(text).map_or(false, |n| RefDec { int: n.int, exp: -n.scale }.value_eq(&value.to_ref()));
                            if !ok {
                                fails.push(sf("J1-roundtrip-number-form", &un, format!("{}::serialize handed the peer the number text {:?}, which is not a JSON number denoting the value", name, clip(text, 60))).fact("field", "num"));
                            } else {
                                obs.reach("adapter_number_token_checked");
                            }
                        }
                        other => fails.push(sf("J8-serializer-peer", &un, format!("{}::serialize: the peer expected serde_json's number token, got {:?} (none x{}, unit x{})", name, other, rec.got_none, rec.got_unit))),
                    },
                }
                let _ = within_limit;
            }
        }
        if rec.collected.is_none() {
            return fails; // the peer's sink is not involved
        }
        let calls = rec.sink_calls;
        let envs: Vec<SinkSpec> = match sel {
            SinkSel::One(e) => vec![e.clone()],
            SinkSel::All => {
                let mut v = vec![];
                for k in 0..calls {
                    v.push(SinkSpec::FailAt { k, sticky: false });
                    v.push(SinkSpec::FailAt { k, sticky: true });
                }
                for capacity in [0usize, 1, 2, text.len().saturating_sub(1), text.len()] {
                    v.push(SinkSpec::Bounded { capacity, sticky: false });
                }
                v.push(SinkSpec::PartialAccept { k: calls.saturating_sub(1), m: 1 });
                v
            }
        };
        for env in envs {
            if env == SinkSpec::Unbounded {
                continue;
            }
            let mut rec = SerRecord::default();
            let r = catch(|| v.serialize(RecSerializer { rec: &mut rec, human_readable: human, sink: env.clone() }));
            obs.execs += 1;
            obs.steps += rec.sink_calls as u64;
            let fired = rec.sink_refusals > 0;
            if fired {
                obs.execs_faulted += 1;
                obs.fault("peer_sink_refusal");
            } else {
                obs.execs_fault_free += 1;
            }
            let outcome;
            match r {
                Err(m) => {
                    outcome = 3;
                    fails.push(sf("J0-no-panic", &env, format!("panicked: {}", m)));
                }
                Ok(Ok(())) => {
                    outcome = 0;
                    if fired || rec.collected.as_deref() != Some(text.as_str()) {
                        fails.push(sf("J8-serializer-peer", &env, format!("returned Ok although the peer's sink refused {} write(s); peer holds {:?}", rec.sink_refusals, rec.collected.as_deref().map(|t| clip(t, 40)))));
                    }
                }
                Ok(Err(e)) => {
                    outcome = 1;
                    if !fired {
                        fails.push(sf("J8-serializer-peer", &env, format!("failed although the sink refused nothing: {}", e)));
                    } else if e.0 != PEER_SINK_ERROR {
                        fails.push(sf("J8-serializer-peer", &env, format!("the peer's error was replaced by {:?}", e.0)));
                    } else {
                        obs.reach("peer_sink_error_propagated");
                    }
                }
            }
            obs.sig(&[17, 3, gen::len_bucket(value.ndigits()), gen::scale_bucket(value.scale, value.ndigits()), env.kind_code(), outcome], fired);
            obs.digest(&[env.kind_code(), outcome]);
        }
        fails
    }
}

fn writer_faulted(p: &IoPlan) -> bool {
    !p.is_clean()
}

impl Property for C17 {
    type Trace = Trace;
    fn id(&self) -> &'static str {
        "C17"
    }
    fn level(&self) -> &'static str {
        "exploration"
    }
    fn runs(&self, tier: Tier) -> u64 {
        match tier {
            Tier::Quick => 120_000,
            Tier::Thorough => 100_000_000,
        }
    }

    fn generate(&self, rng: &mut Rng, _tier: Tier, run: u64) -> Trace {
        match rng.below(10) {
            0 | 1 => {
                let token = gen_token(rng);
                let target = *rng.pick(&[Target::Plain, Target::Plain, Target::OptionPlain, Target::JsonNum, Target::InPlace]);
                Trace::Token { token, target }
            }
            2 => Trace::SerPeer { value: gen_value(rng), human_readable: rng.chance(1, 2), sink: SinkSel::All },
            _ => {
                let consumer = match rng.below(14) {
                    0 => Consumer::FromReader,
                    1 => Consumer::FromReaderBuffered(*rng.pick(&[1usize, 2, 7, 64, 8192])),
                    2 => Consumer::FromSlice,
                    3 => Consumer::FromStr,
                    4 | 5 => Consumer::StreamReader,
                    6 => Consumer::StreamSlice,
                    7 | 8 => Consumer::ViaValue,
                    9 | 10 => Consumer::Lines,
                    11 => Consumer::FlattenSlice,
                    12 => Consumer::FlattenReader,
                    _ => Consumer::UntaggedSlice,
                };
                let nframes = if consumer.multi() { 1 + rng.below(4) as usize } else { 1 };
                // swarm: which fault kinds are enabled for this run
                let foreign_rate = *rng.pick(&[0u64, 0, 1, 2, 4]); // out of 4
                let faults_on = rng.chance(2, 3);
                let corrupt_on = faults_on && rng.chance(1, 3);
                let frames: Vec<FrameSrc> = (0..nframes)
                    .map(|i| {
                        let id = run * 8 + i as u64;
                        if rng.below(4) < foreign_rate {
                            FrameSrc::Foreign(gen_foreign(rng, id))
                        } else {
                            FrameSrc::Typed(gen_frame_spec(rng, id))
                        }
                    })
                    .collect();
                // rough size of the stream, to aim faults inside frames that are in flight
                let approx: u64 = frames
                    .iter()
                    .map(|f| match f {
                        FrameSrc::Foreign(x) => x.text().len() as u64 + 1,
                        FrameSrc::Typed(s) => 60 + (s.plain.ndigits() + s.num.ndigits() + s.list.iter().map(|d| d.ndigits() + 12).sum::<usize>() + s.opt.as_ref().map_or(4, |d| d.ndigits() + 10) + s.optplain.as_ref().map_or(4, |d| d.ndigits() + 10)) as u64,
                    })
                    .sum();
                let whard = rng.chance(1, 3);
                let rhard = rng.chance(1, 2);
                let wplan = if faults_on { gen_ioplan(rng, approx, false, whard) } else { IoPlan::default() };
                let mut rplan = if faults_on { gen_ioplan(rng, approx, true, rhard) } else { IoPlan::default() };
                if !consumer.uses_reader() {
                    // slice consumers: only truncation applies
                    rplan.max_chunk.clear();
                    rplan.interrupts.clear();
                    if let Some(k) = rplan.hard_error_at.take() {
                        rplan.eof_at = Some(k);
                    }
                }
                let mut corrupt = vec![];
                if corrupt_on {
                    for _ in 0..(1 + rng.below(2)) {
                        let in_numeral = rng.chance(3, 4);
                        corrupt.push(Corruption {
                            numeral: if in_numeral { Some(rng.below(64) as usize) } else { None },
                            pos_permille: rng.below(1000) as u16,
                            byte: if rng.chance(1, 2) { Some(*rng.pick(b"0123456789eE.-+ ,\"x")) } else { None },
                            bit: rng.below(8) as u8,
                        });
                    }
                }
                {
                    let mut producer = *rng.pick(&[Producer::ToWriter, Producer::ToWriter, Producer::ToWriter, Producer::ToVec, Producer::ToVec, Producer::ToWriterPretty]);
                    if consumer == Consumer::Lines && producer == Producer::ToWriterPretty {
                        producer = Producer::ToWriter; // pretty output contains newlines
                    }
                    Trace::Wire(Wire { frames, producer, consumer, wplan, rplan, corrupt })
                }
            }
        }
    }

    fn execute(&self, t: &Trace, obs: &mut Obs) -> Vec<Failure> {
        match t {
            Trace::Wire(w) => self.exec_wire(w, obs),
            Trace::Token { token, target } => self.exec_token(token, *target, obs),
            Trace::SerPeer { value, human_readable, sink } => self.exec_serpeer(value, *human_readable, sink, obs),
        }
    }

    fn narrow(&self, t: &Trace, f: &Failure) -> Trace {
        match t {
            Trace::SerPeer { value, human_readable, .. } => {
                let sink: SinkSpec = f.focus.get("sink").and_then(|v| serde_json::from_value(v.clone()).ok()).unwrap_or(SinkSpec::Unbounded);
                Trace::SerPeer { value: value.clone(), human_readable: *human_readable, sink: SinkSel::One(sink) }
            }
            _ => t.clone(),
        }
    }

    fn shrink(&self, t: &Trace) -> Vec<Trace> {
        let mut out = vec![];
        match t {
            Trace::Wire(w) => {
                // fewer faults
                if !w.corrupt.is_empty() {
                    for i in 0..w.corrupt.len() {
                        let mut c = w.corrupt.clone();
                        c.remove(i);
                        out.push(Trace::Wire(Wire { corrupt: c, ..w.clone() }));
                    }
                }
                for (is_w, p) in [(true, &w.wplan), (false, &w.rplan)] {
                    let mut cands: Vec<IoPlan> = vec![];
                    if !p.is_clean() {
                        cands.push(IoPlan::default());
                    }
                    if !p.max_chunk.is_empty() {
                        cands.push(IoPlan { max_chunk: vec![], ..p.clone() });
                    }
                    if !p.interrupts.is_empty() {
                        cands.push(IoPlan { interrupts: vec![], ..p.clone() });
                    }
                    if p.hard_error_at.is_some() {
                        cands.push(IoPlan { hard_error_at: None, ..p.clone() });
                    }
                    if p.eof_at.is_some() {
                        cands.push(IoPlan { eof_at: None, ..p.clone() });
                    }
                    for c in cands {
                        out.push(Trace::Wire(if is_w { Wire { wplan: c, ..w.clone() } } else { Wire { rplan: c, ..w.clone() } }));
                    }
                }
                // fewer frames
                if w.frames.len() > 1 {
                    for i in 0..w.frames.len() {
                        let mut fr = w.frames.clone();
                        fr.remove(i);
                        out.push(Trace::Wire(Wire { frames: fr, ..w.clone() }));
                    }
                }
                // simpler consumer / producer
                if w.consumer != Consumer::FromSlice && w.frames.len() == 1 {
                    out.push(Trace::Wire(Wire { consumer: Consumer::FromSlice, ..w.clone() }));
                }
                if w.producer != Producer::ToVec {
                    out.push(Trace::Wire(Wire { producer: Producer::ToVec, ..w.clone() }));
                }
                // simpler frames
                let simple = Dec::new(false, "1", 0);
                for (i, fs) in w.frames.iter().enumerate() {
                    let mut push = |nf: FrameSrc| {
                        let mut fr = w.frames.clone();
                        fr[i] = nf;
                        out.push(Trace::Wire(Wire { frames: fr, ..w.clone() }));
                    };
                    match fs {
                        FrameSrc::Typed(s) => {
                            if !s.list.is_empty() {
                                push(FrameSrc::Typed(FrameSpec { list: vec![], ..s.clone() }));
                            }
                            if s.opt.is_some() {
                                push(FrameSrc::Typed(FrameSpec { opt: None, ..s.clone() }));
                            }
                            if s.optplain.is_some() {
                                push(FrameSrc::Typed(FrameSpec { optplain: None, ..s.clone() }));
                            }
                            if s.plain != simple {
                                push(FrameSrc::Typed(FrameSpec { plain: simple.clone(), ..s.clone() }));
                            }
                            if s.num != simple {
                                push(FrameSrc::Typed(FrameSpec { num: simple.clone(), ..s.clone() }));
                            }
                            for d in gen::shrink_dec(&s.plain).into_iter().take(8) {
                                push(FrameSrc::Typed(FrameSpec { plain: d, ..s.clone() }));
                            }
                            for d in gen::shrink_dec(&s.num).into_iter().take(8) {
                                push(FrameSrc::Typed(FrameSpec { num: d, ..s.clone() }));
                            }
                            if let Some(o) = &s.opt {
                                for d in gen::shrink_dec(o).into_iter().take(8) {
                                    push(FrameSrc::Typed(FrameSpec { opt: Some(d), ..s.clone() }));
                                }
                            }
                            if let Some(o) = &s.optplain {
                                for d in gen::shrink_dec(o).into_iter().take(8) {
                                    push(FrameSrc::Typed(FrameSpec { optplain: Some(d), ..s.clone() }));
                                }
                            }
                            if s.list.len() > 1 {
                                for j in 0..s.list.len() {
                                    let mut l = s.list.clone();
                                    l.remove(j);
                                    push(FrameSrc::Typed(FrameSpec { list: l, ..s.clone() }));
                                }
                            } else if let Some(d0) = s.list.first() {
                                for d in gen::shrink_dec(d0).into_iter().take(8) {
                                    push(FrameSrc::Typed(FrameSpec { list: vec![d], ..s.clone() }));
                                }
                            }
                        }
                        FrameSrc::Foreign(f) => {
                            if !f.list.is_empty() {
                                push(FrameSrc::Foreign(ForeignSpec { list: vec![], ..f.clone() }));
                            }
                            if f.optplain.is_some() {
                                push(FrameSrc::Foreign(ForeignSpec { optplain: None, ..f.clone() }));
                            }
                            if f.spaced {
                                push(FrameSrc::Foreign(ForeignSpec { spaced: false, ..f.clone() }));
                            }
                            for (k, cur) in [(0, &f.plain), (1, &f.num), (2, &f.opt)] {
                                for simple in ["1", "null", "0.5"] {
                                    if cur != simple && !(simple == "null" && k != 2) {
                                        let mut g = f.clone();
                                        match k {
                                            0 => g.plain = simple.into(),
                                            1 => g.num = simple.into(),
                                            _ => g.opt = simple.into(),
                                        }
                                        push(FrameSrc::Foreign(g));
                                    }
                                }
                                // shorter numeral: drop the middle half
                                if cur.len() > 8 && cur.bytes().all(|b| b.is_ascii_digit() || matches!(b, b'.' | b'-' | b'e' | b'E' | b'+')) {
                                    let q = cur.len() / 4;
                                    let shorter = format!("{}{}", &cur[..q], &cur[cur.len() - q..]);
                                    let mut g = f.clone();
                                    match k {
                                        0 => g.plain = shorter,
                                        1 => g.num = shorter,
                                        _ => g.opt = shorter,
                                    }
                                    push(FrameSrc::Foreign(g));
                                }
                            }
                        }
                    }
                }
            }
            Trace::Token { token, target } => {
                if let Token::Str(s) | Token::BorrowedStr(s) | Token::String(s) | Token::MapNumber(s) = token {
                    if s.len() > 4 {
                        let q = s.len() / 4;
                        let shorter = format!("{}{}", &s[..q], &s[s.len() - q..]);
                        let t2 = match token {
                            Token::Str(_) => Token::Str(shorter),
                            Token::BorrowedStr(_) => Token::BorrowedStr(shorter),
                            Token::String(_) => Token::String(shorter),
                            _ => Token::MapNumber(shorter),
                        };
                        out.push(Trace::Token { token: t2, target: *target });
                    }
                }
                if *target != Target::Plain {
                    out.push(Trace::Token { token: token.clone(), target: Target::Plain });
                }
            }
            Trace::SerPeer { value, human_readable, sink } => {
                for d in gen::shrink_dec(value) {
                    out.push(Trace::SerPeer { value: d, human_readable: *human_readable, sink: sink.clone() });
                }
            }
        }
        out
    }

    fn rule_text(&self) -> String {
        "run = one scenario: (a) wire: 1..4 frames {id, plain, json_num, json_num_option, list, Option} from a real serde_json producer (to_writer onto the channel, or to_vec+write_all) and/or a foreign JSON writer (numerals of 1..2000 digits, fractions, exponents, numeric strings, malformed numerals, other JSON), through a byte channel executing a fault plan (short writes/reads, EINTR, hard write error = sender crash with the durable prefix kept, hard read error, EOF mid-frame, byte substitutions and bit flips aimed inside numerals), into one of 7 consumer configurations (from_reader, buffered, from_slice, from_str, stream over reader/slice, two-stage Value); (b) token: one serde token of every integer/float width, string flavour or MapAccess behaviour (incl. peer errors) handed to BigDecimal / Option<BigDecimal> / json_num; (c) serializer peer: a recording Serializer whose sink fails at each enumerated point of the Display it drives. Swarm: per run the foreign-frame rate and which fault kinds are enabled are drawn first. Non-trivial = a fault actually fired (transport fault, corruption applied, peer error); signatures = (scenario, consumer, producer, frame counts, which fault kinds fired, per-document outcome class).".into()
    }
    fn assumptions(&self) -> Vec<String> {
        vec![
            "serde, serde_derive output and serde_json (Serializer, Deserializer<IoRead|SliceRead|StrRead>, StreamDeserializer, Value, Number) are real and trusted; serde_json::Value is also the oracle's structural reference for the bytes that arrived".into(),
            "acceptance of the text inside JSON *strings* is decided by the crate's own FromStr (its grammar is property C05's subject); for strict numerals the harness's reference parser must agree".into(),
            "frame duplication, loss and reordering are not injected: the crate keeps no state between values".into(),
            "default build configuration: scale limit 150000, not string-only".into(),
            "json_num_option and numeric strings: the statement promises nothing, so nothing is demanded".into(),
        ]
    }
    fn components(&self) -> Value {
        json!({"real": ["bigdecimal (working tree): Serialize, Deserialize/BigDecimalVisitor, serde::json_num, serde::json_num_option, Display, FromStr, TryFrom<f32/f64>", "serde + derive output", "serde_json: to_writer, to_vec, from_reader, from_slice, from_str, StreamDeserializer, Value/from_value, Number (arbitrary_precision)", "std::io::BufReader, write_all"],
               "stub": ["io::Write / io::Read transports with fault plans (SimWriter, SimReader)", "byte channel with corruption", "foreign JSON producer", "token-level Deserializer / MapAccess / Serializer peers", "reference decode oracle"]})
    }
    fn required_reach(&self, _tier: Tier) -> Vec<&'static str> {
        vec![
            "typed_frame_round_tripped",
            "frame_compared_with_reference_decode",
            "broken_frame_rejected",
            "corrupted_frame_rejected",
            "corrupted_frame_decoded_to_what_arrived",
            "write_fault_reported_to_producer",
            "write_fault_inside_a_decimal",
            "write_short",
            "write_interrupted",
            "write_hard_error",
            "read_short",
            "read_interrupted",
            "read_hard_error",
            "read_torn_eof",
            "corrupt_byte_inside_numeral",
            "corruption_digit_to_digit",
            "corruption_digit_to_e",
            "corruption_digit_to_dot",
            "rejected:exponent beyond the configured limit",
            "token:str",
            "token:borrowed_str",
            "token:string",
            "token:i8",
            "token:i128",
            "token:u128",
            "token:f32",
            "token:f64",
            "token:map_number",
            "token:map_wrong_key",
            "token:map_key_error",
            "token:map_value_error",
            "token_scale_beyond_limit",
            "float_token_exact",
            "peer_sink_error_propagated",
            "peer_error_from_map_access",
            "adapter_none_is_none",
            "adapter_number_token_checked",
        ]
    }
}
