//! C14 - binary floats convert to decimals exactly and come back unchanged; to_f64 of an arbitrary
//! decimal is within 2^-48 (relative) for *every admissible result of the platform's powi*.
//!
//! Simulated system: one conversion, with the `f64::powi` intrinsic on the to_f64 path played by
//! the simulator (Rust documents its precision as non-deterministic).

use crate::env::floatsite::{FloatEnv, FloatHookGuard};
use crate::framework::{catch, Failure, Obs, Property, Tier};
use crate::gen::{self, ValueCfg};
use crate::prng::Rng;
use crate::refdec::{pow10, pow2, pow5, Dec, RefDec};
use crate::util::{clip, intern};
use bigdecimal::num_bigint::{BigInt, BigUint, Sign};
use bigdecimal::num_traits::{FromPrimitive, ToPrimitive};
use bigdecimal::verif_hooks::FloatSite;
use bigdecimal::BigDecimal;
use serde::{Deserialize, Serialize};
use serde_json::{json, Value};
use std::convert::TryFrom;

#[derive(Clone, Debug, Serialize, Deserialize, PartialEq)]
#[serde(tag = "kind", rename_all = "snake_case")]
pub enum Item {
    F32 { bits: u32 },
    F64 { bits: u64 },
    /// bit patterns start, start+step, ... (count of them); patterns beyond u32::MAX are skipped
    F32Sweep { start: u64, step: u64, count: u64 },
    Dec { value: Dec },
}

#[derive(Clone, Debug, Serialize, Deserialize, PartialEq)]
#[serde(rename_all = "snake_case")]
pub enum EnvSel {
    /// native plus every admissible powi result class (and the stress set, which never bears a verdict)
    All,
    One(FloatEnv),
}

#[derive(Clone, Debug, Serialize, Deserialize)]
pub struct Trace {
    pub item: Item,
    pub env: EnvSel,
    /// how a decimal item travelled before the conversion (see Dec::to_bd_via); 0 = built freshly
    #[serde(default)]
    pub transport: u8,
}

pub struct C14;

/// Admissible: native +- up to 8 ULP (DESIGN.md §7: native powi is up to 6 ULP off; Miri models +-4)
const ADMISSIBLE: [FloatEnv; 11] = [
    FloatEnv::Native,
    FloatEnv::UlpAlt(8),
    FloatEnv::UlpAlt(-8),
    FloatEnv::Ulp(1),
    FloatEnv::Ulp(-1),
    FloatEnv::Ulp(2),
    FloatEnv::Ulp(-2),
    FloatEnv::Ulp(4),
    FloatEnv::Ulp(-4),
    FloatEnv::Ulp(8),
    FloatEnv::Ulp(-8),
];
/// Stress: feeds the margin figures only
const STRESS: [FloatEnv; 6] = [FloatEnv::Ulp(12), FloatEnv::Ulp(-12), FloatEnv::Ulp(16), FloatEnv::Ulp(-16), FloatEnv::Ulp(64), FloatEnv::Ulp(-64)];

fn admissible(e: &FloatEnv) -> bool {
    match *e {
        FloatEnv::Native => true,
        FloatEnv::Ulp(d) | FloatEnv::UlpAlt(d) => d.abs() <= 8,
        _ => false,
    }
}

/// every f64 exponent field (0..=2047) x 8 mantissa shapes
const F64_GRID: u64 = 2048 * 8;
/// d x 10^k, k in -400..=400, 6 digit strings
const DEC_GRID: u64 = 801 * 6;
/// 53 trailing-zero counts x 141 unbiased exponents (-70..=70)
const TZ_GRID: u64 = 53 * 141 * 3;
/// 6 word sizes x 112 powers of five x 9 neighbours
const WORD_GRID: u64 = 6 * 112 * 9;
/// 5 anchors x 400 prefix lengths x 3 bumps
const EDGE_GRID: u64 = 5 * 400 * 3;
const F32_SWEEP_RUNS_THOROUGH: u64 = 65536; // x 65536 patterns = all 2^32
const F32_SWEEP_RUNS_QUICK: u64 = 1024; // x 1024 patterns, stride 4099

fn f32_sweep_runs(tier: Tier) -> u64 {
    match tier {
        Tier::Quick => F32_SWEEP_RUNS_QUICK,
        Tier::Thorough => F32_SWEEP_RUNS_THOROUGH,
    }
}

/// int * 10^-scale == (-1)^neg * m * 2^e, by cross-multiplication (no strings, no division)
fn decimal_equals_m2e(int: &BigInt, scale: i64, neg: bool, m: u64, e: i64) -> bool {
    if m == 0 {
        return int.sign() == Sign::NoSign;
    }
    let want_sign = if neg { Sign::Minus } else { Sign::Plus };
    if int.sign() != want_sign {
        return false;
    }
    if scale.unsigned_abs() > 5000 {
        return false;
    }
    // |int| * 10^-scale = m * 2^e
    let mut lhs: BigUint = int.magnitude().clone();
    let mut rhs: BigUint = BigUint::from(m);
    if scale >= 0 {
        rhs *= pow10(scale as u64);
    } else {
        lhs *= pow10(scale.unsigned_abs());
    }
    if e >= 0 {
        rhs <<= e as usize;
    } else {
        lhs <<= (-e) as usize;
    }
    lhs == rhs
}

fn f64_parts(bits: u64) -> Option<(bool, u64, i64)> {
    let neg = bits >> 63 == 1;
    let ef = ((bits >> 52) & 0x7FF) as i64;
    let frac = bits & ((1u64 << 52) - 1);
    match ef {
        0x7FF => None,
        0 => Some((neg, frac, -1074)),
        _ => Some((neg, frac | (1u64 << 52), ef - 1075)),
    }
}

fn f32_parts(bits: u32) -> Option<(bool, u64, i64)> {
    let neg = bits >> 31 == 1;
    let ef = ((bits >> 23) & 0xFF) as i64;
    let frac = (bits & ((1u32 << 23) - 1)) as u64;
    match ef {
        0xFF => None,
        0 => Some((neg, frac, -149)),
        _ => Some((neg, frac | (1u64 << 23), ef - 150)),
    }
}

fn f64_class(bits: u64) -> u64 {
    let ef = (bits >> 52) & 0x7FF;
    let frac = bits & ((1u64 << 52) - 1);
    match (ef, frac) {
        (0, 0) => 0,
        (0, _) => 1,
        (0x7FF, 0) => 2,
        (0x7FF, _) => 3,
        (1..=2, _) => 4,
        (0x7FD..=0x7FE, _) => 5,
        (e, _) if e < 1023 - 60 => 6,
        (e, _) if e < 1023 => 7,
        (e, _) if e <= 1023 + 52 => 8,
        _ => 9,
    }
}

fn fail(rule: &'static str, item: &Item, env: &FloatEnv, detail: String) -> Failure {
    let (kind, desc) = match item {
        Item::F32 { bits } => ("f32", format!("f32 bits {:#010x} ({:e})", bits, f32::from_bits(*bits))),
        Item::F64 { bits } => ("f64", format!("f64 bits {:#018x} ({:e})", bits, f64::from_bits(*bits))),
        Item::F32Sweep { start, .. } => ("f32", format!("f32 sweep from {:#x}", start)),
        Item::Dec { value } => ("decimal", format!("decimal {}e{}", clip(&value.int, 50), -(value.scale as i128))),
    };
    let mut f = Failure::new(rule, format!("{} [powi env {}]: {}", desc, env.name(), detail))
        .fact("item", kind)
        .fact("env", env.name())
        .focus(json!({"item": serde_json::to_value(item).unwrap(), "env": serde_json::to_value(env).unwrap()}));
    if let Item::Dec { value } = item {
        f = f.fact("scale_beyond_i32", value.scale > i32::MAX as i64 || value.scale < i32::MIN as i64).fact("scale_sign", value.scale.signum());
    }
    f
}

struct Consts {
    max: RefDec,
    max_lo: RefDec, // MAX * (1 - 2^-48)
    min_pos: RefDec,
    sub_step: RefDec, // 2^-1074
}

fn consts() -> Consts {
    let max = RefDec::from_f64_bits(f64::MAX.to_bits()).unwrap();
    // MAX*(1-2^-48) = MAX*(2^48-1)/2^48 = MAX*(2^48-1) * 5^48 * 10^-48
    let k = BigInt::from((pow2(48) - BigUint::from(1u8)) * pow5(48));
    let max_lo = RefDec { int: &max.int * k, exp: max.exp - 48 };
    Consts { max, max_lo, min_pos: RefDec::from_f64_bits(f64::MIN_POSITIVE.to_bits()).unwrap(), sub_step: RefDec::from_f64_bits(1).unwrap() }
}

thread_local! {
    static CONSTS: Consts = consts();
}

impl C14 {
    /// One float -> decimal -> float round trip (F1, F2, F4). Returns at most one failure.
    fn check_float(&self, item: &Item, parts: Option<(bool, u64, i64)>, is32: bool, bits: u64, envs: &[FloatEnv], obs: &mut Obs) -> Option<Failure> {
        let native = FloatEnv::Native;
        obs.execs += 1;
        obs.execs_fault_free += 1;
        let conv = catch(|| {
            if is32 {
                let f = f32::from_bits(bits as u32);
                (BigDecimal::try_from(f).ok(), BigDecimal::from_f32(f))
            } else {
                let f = f64::from_bits(bits);
                (BigDecimal::try_from(f).ok(), BigDecimal::from_f64(f))
            }
        });
        let (tf, fp) = match conv {
            Ok(x) => x,
            Err(m) => return Some(fail("F0-no-panic", item, &native, format!("conversion panicked: {}", m))),
        };
        if tf.is_some() != fp.is_some() || (tf.is_some() && tf != fp) {
            return Some(fail("F1-constructors-agree", item, &native, "TryFrom and FromPrimitive disagree".into()));
        }
        let (neg, m, e) = match parts {
            None => {
                obs.reach("nan_or_infinity_rejected");
                return tf.map(|d| fail("F1-nan-inf-rejected", item, &native, format!("converted to {} instead of an error", clip(&d.to_string(), 60))));
            }
            Some(p) => p,
        };
        let d = match tf {
            Some(d) => d,
            None => return Some(fail("F1-exact", item, &native, "finite float rejected".into())),
        };
        let (int, scale) = d.as_bigint_and_exponent();
        obs.digest(&[scale as u64, int.bits(), int.iter_u64_digits().next().unwrap_or(0)]);
        if !decimal_equals_m2e(&int, scale, neg, m, e) {
            return Some(fail("F1-exact", item, &native, format!("decimal ({}, scale {}) is not {}{}*2^{}", clip(&int.to_string(), 60), scale, if neg { "-" } else { "" }, m, e)));
        }
        if e == if is32 { -149 } else { -1074 } && m != 0 && m < (1u64 << if is32 { 23 } else { 52 }) {
            obs.reach(if is32 { "subnormal_f32_constructor" } else { "subnormal_f64_constructor" });
        }
        // F2: back to f64 (and to f32 for f32 sources) - identical bits, -0.0 comes back as +0.0
        let want64 = if is32 { (f32::from_bits(bits as u32) as f64).to_bits() } else { bits };
        let want64 = if m == 0 { 0u64 } else { want64 };
        for env in envs {
            let guard = FloatHookGuard::install(FloatSite::ToF64Powi, *env);
            let r = catch(|| (d.to_f64(), d.to_ref().to_f64(), if is32 { d.to_f32().and_then(|a| d.to_ref().to_f32().filter(|b| b.to_bits() == a.to_bits())) } else { None }));
            let calls = guard.calls();
            drop(guard);
            obs.steps += calls.len() as u64;
            if *env != FloatEnv::Native {
                if calls.is_empty() {
                    break; // the seam is not on this path: other environments are indistinguishable
                }
                obs.execs += 1;
                obs.execs_faulted += 1;
                obs.fault(intern(&format!("powi_{}", env.name())));
            } else if !calls.is_empty() {
                obs.reach("powi_site_on_float_roundtrip_path");
            }
            let (a, b, c) = match r {
                Ok(x) => x,
                Err(msg) => return Some(fail("F0-no-panic", item, env, format!("to_f64 panicked: {}", msg))),
            };
            if !admissible(env) {
                continue;
            }
            if let Some(x) = a {
                obs.digest(&[x.to_bits()]);
            }
            match (a, b) {
                (Some(x), Some(y)) if x.to_bits() == y.to_bits() => {
                    if x.to_bits() != want64 {
                        return Some(fail("F2-roundtrip", item, env, format!("came back as {:e} (bits {:#018x}), expected bits {:#018x}", x, x.to_bits(), want64)));
                    }
                }
                (Some(x), Some(y)) if calls.is_empty() => return Some(fail("F4-forms-agree", item, env, format!("value form gives {:e}, reference form {:e}", x, y))),
                (Some(x), Some(y)) => {
                    // the seam is on this path and varied between the two calls: each must still be the float
                    for z in [x, y] {
                        if z.to_bits() != want64 {
                            return Some(fail("F2-roundtrip", item, env, format!("came back as {:e} (bits {:#018x}), expected bits {:#018x}", z, z.to_bits(), want64)));
                        }
                    }
                }
                _ => return Some(fail("F2-roundtrip", item, env, "to_f64 returned None".into())),
            }
            if is32 {
                let want32 = if m == 0 { 0u32 } else { bits as u32 };
                match c {
                    Some(z) if z.to_bits() == want32 => {}
                    other => return Some(fail("F2-roundtrip", item, env, format!("to_f32 gives {:?}, expected bits {:#010x}", other.map(|z| z.to_bits()), want32))),
                }
            }
        }
        None
    }

    /// F3 for an arbitrary decimal under one powi environment. Returns (failure, would-be violation for stress)
    fn check_decimal(&self, item: &Item, value: &Dec, v: &BigDecimal, r: &RefDec, env: &FloatEnv, obs: &mut Obs) -> (Option<Failure>, usize) {
        let guard = FloatHookGuard::install(FloatSite::ToF64Powi, *env);
        let res = catch(|| (v.to_f64(), v.to_ref().to_f64()));
        // references derived with abs() / neg: |v| and -v must convert like the owned values do
        let derived = catch(|| (v.to_ref().abs().to_f64(), (-v.to_ref()).to_f64(), v.abs().to_f64(), (-v.clone()).to_f64()));
        let calls = guard.calls();
        drop(guard);
        match derived {
            Err(m) => return (Some(fail("F0-no-panic", item, env, format!("to_f64 on abs()/neg of the reference panicked: {}", m))), calls.len()),
            Ok((ra, rn, oa, on)) => {
                let same = |x: Option<f64>, y: Option<f64>| match (x, y) {
                    (Some(a), Some(b)) => a.to_bits() == b.to_bits() || (a == 0.0 && b == 0.0),
                    (None, None) => true,
                    _ => false,
                };
                // compared only when the seam is not on the path (otherwise each call may see another powi)
                if calls.is_empty() && (!same(ra, oa) || !same(rn, on)) {
                    return (Some(fail("F4-forms-agree", item, env, format!("to_ref().abs() / -to_ref() convert to {:?} / {:?} but abs() / neg of the value to {:?} / {:?}", ra, rn, oa, on))), calls.len());
                }
                for z in [ra, rn, oa, on] {
                    match z {
                        Some(f) if !f.is_nan() => {}
                        other => return (Some(fail("F3-tolerance", item, env, format!("to_f64 on abs()/neg of the value or its reference returned {:?}", other))), calls.len()),
                    }
                }
                obs.reach("derived_references_converted");
            }
        }
        obs.steps += 1 + calls.len() as u64;
        let ncalls = calls.len();
        if let Some(&(n, _, _)) = calls.first() {
            let n = n as i64;
            obs.reach(if n <= 22 {
                "powi_exact_power_1_22"
            } else if n <= 308 {
                "powi_inexact_power_23_308"
            } else {
                "powi_overflowing_power_gt_308"
            });
        }
        let (a, b) = match res {
            Ok(x) => x,
            Err(m) => return (Some(fail("F0-no-panic", item, env, format!("to_f64 panicked: {}", m))), ncalls),
        };
        let g = match (a, b) {
            (Some(x), Some(y)) if x.to_bits() == y.to_bits() => x,
            // Two calls may legitimately see two different powi results (Rust: the precision "can even
            // differ within the same execution from one invocation to the next" - Miri does exactly that),
            // so the two forms need only agree bit for bit when the seam is not on the path.
            (Some(x), Some(y)) if ncalls == 0 => return (Some(fail("F4-forms-agree", item, env, format!("value form gives {:e}, reference form {:e}", x, y))), ncalls),
            (Some(x), Some(y)) => {
                obs.reach("forms_differ_under_call_to_call_powi_variation");
                // judge both: the reference form here, the value form below
                let (f, _) = self.judge_f3(item, value, r, env, y, obs);
                if f.is_some() {
                    return (f, ncalls);
                }
                x
            }
            _ => return (Some(fail("F3-some", item, env, "to_f64 returned None".into())), ncalls),
        };
        self.judge_f3(item, value, r, env, g, obs).0.map_or((None, ncalls), |f| (Some(f), ncalls))
    }

    /// F3 on one result `g`
    fn judge_f3(&self, item: &Item, value: &Dec, r: &RefDec, env: &FloatEnv, g: f64, obs: &mut Obs) -> (Option<Failure>, usize) {
        let ncalls = 0usize;
        obs.digest(&[g.to_bits(), env.code()]);
        if g.is_nan() {
            return (Some(fail("F3-tolerance", item, env, "to_f64 returned NaN".into())), ncalls);
        }
        if r.is_zero() {
            if g != 0.0 {
                return (Some(fail("F3-tolerance", item, env, format!("zero converted to {:e}", g))), ncalls);
            }
            return (None, ncalls);
        }
        let vneg = r.sign() == Sign::Minus;
        if g != 0.0 && g.is_sign_negative() != vneg {
            return (Some(fail("F3-sign", item, env, format!("result {:e} has the wrong sign", g))), ncalls);
        }
        let le = value.lead_exp();
        // far outside the f64 range: decided by the exponent alone (no huge alignments)
        if le > 310 {
            obs.reach("decimal_far_above_f64_range");
            if !g.is_infinite() {
                return (Some(fail("F3-tolerance", item, env, format!("|v| ~ 10^{} is beyond f64::MAX but the result is {:e}", le, g))), ncalls);
            }
            return (None, ncalls);
        }
        if le < -330 {
            obs.reach("decimal_far_below_subnormal_range");
            let ok = g == 0.0 || g.abs().to_bits() == 1;
            if !ok {
                return (Some(fail("F3-tolerance", item, env, format!("|v| ~ 10^{} is far below the smallest subnormal but the result is {:e}", le, g))), ncalls);
            }
            return (None, ncalls);
        }
        let absv = r.abs();
        CONSTS.with(|k| {
            if g.is_infinite() {
                obs.reach("result_infinite");
                if absv.le(&k.max_lo) {
                    return (Some(fail("F3-tolerance", item, env, "result is infinite although |v| <= MAX*(1-2^-48)".into())), ncalls);
                }
                return (None, ncalls);
            }
            let gr = RefDec::from_f64_bits(g.to_bits()).unwrap();
            let diff = gr.sub(r).abs();
            if absv.lt(&k.min_pos) {
                obs.reach("decimal_in_or_below_subnormal_range");
                if !diff.le(&k.sub_step) {
                    return (Some(fail("F3-tolerance", item, env, format!("|v| below MIN_POSITIVE: result {:e} is more than one subnormal step away", g))), ncalls);
                }
                return (None, ncalls);
            }
            {
                if !absv.le(&k.max_lo) {
                    obs.reach("decimal_within_tolerance_of_f64_max_or_beyond");
                }
                // |g - v| * 2^48 <= |v|
                let scaled = RefDec { int: &diff.int * BigInt::from(pow2(48)), exp: diff.exp };
                // margin in units of 2^-53 (x100): floor(|g-v| * 2^53 * 100 / |v|)
                if admissible(env) {
                    let units = rel_units_x100(&diff, &absv);
                    obs.max(if *env == FloatEnv::Native { "f3_worst_rel_err_native_(2^-53_units_x100)" } else { "f3_worst_rel_err_admissible_(2^-53_units_x100)" }, units);
                }
                if !scaled.le(&absv) {
                    return (Some(fail("F3-tolerance", item, env, format!("result {:e} is off by more than 2^-48 relative ({} units of 2^-53)", g, rel_units_x100(&diff, &absv) / 100))), ncalls);
                }
            }
            (None, ncalls)
        })
    }
}

/// floor(diff * 2^53 * 100 / v), saturating
fn rel_units_x100(diff: &RefDec, v: &RefDec) -> u64 {
    if v.is_zero() {
        return u64::MAX;
    }
    let num = RefDec { int: &diff.int * BigInt::from(pow2(53)) * BigInt::from(100u32), exp: diff.exp };
    // align and divide
    let e = num.exp.min(v.exp);
    let a = &num.int * BigInt::from(pow10((num.exp - e) as u64));
    let b = &v.int * BigInt::from(pow10((v.exp - e) as u64));
    let q = a / b;
    q.to_u64().unwrap_or(u64::MAX)
}

fn gen_f64_bits(rng: &mut Rng) -> u64 {
    let sign = (rng.below(2)) << 63;
    let mant = |rng: &mut Rng| -> u64 {
        match rng.below(8) {
            0 => 0,
            1 => 1,
            2 => (1u64 << 52) - 1,
            3 => 1u64 << rng.below(52),
            4 => ((1u64 << 52) - 1) ^ (1u64 << rng.below(52)),
            5 => rng.next_u64() & ((1u64 << 52) - 1) & !((1u64 << rng.below(52)) - 1), // trailing zero bits
            _ => rng.next_u64() & ((1u64 << 52) - 1),
        }
    };
    match rng.below(10) {
        0 | 1 => {
            // exponent fields at the subnormal/normal/max boundaries
            let efs: [u64; 10] = [0, 1, 2, 1022, 1023, 1024, 1025, 2045, 2046, 2047];
            sign | (rng.pick(&efs) << 52) | mant(rng)
        }
        2 => {
            let specials: [u64; 10] = [
                0,
                1,
                f64::MIN_POSITIVE.to_bits(),
                f64::MIN_POSITIVE.to_bits() - 1,
                f64::MAX.to_bits(),
                f64::INFINITY.to_bits(),
                f64::NAN.to_bits(),
                0x7FF0_0000_0000_0001,
                1.0f64.to_bits(),
                0.1f64.to_bits(),
            ];
            sign | *rng.pick(&specials)
        }
        3 => {
            // exponent near the integer / fraction boundary (pow = 0 at field 1075)
            let ef = rng.urange(1023 + 40, 1023 + 64);
            sign | (ef << 52) | mant(rng)
        }
        4 => {
            // "nice" decimal floats
            let m = rng.below(10_000) as f64;
            let e = rng.range(-30, 30) as i32;
            sign | (m * 10f64.powi(e)).to_bits()
        }
        5 => sign | (rng.below(2047) << 52) | mant(rng),
        _ => rng.next_u64(),
    }
}

/// exact decimal of m * 2^e as a trace value
fn dec_from_m2e(neg: bool, m: &BigUint, e: i64) -> Dec {
    let (int, scale): (BigUint, i64) = if e >= 0 { (m << (e as usize), 0) } else { (m * pow5((-e) as u64), -e) };
    Dec::new(neg, &int.to_str_radix(10), scale)
}

fn gen_decimal(rng: &mut Rng) -> Dec {
    match rng.below(16) {
        // digits 1..400, leading exponent -400..400
        0..=5 => {
            let cfg = ValueCfg::swarm(rng, 400, 1000);
            let (digits, _) = gen::gen_digits(rng, &cfg);
            let le = rng.range(-400, 400);
            let scale = digits.len() as i64 - 1 - le;
            Dec::new(rng.chance(1, 2), &digits, scale)
        }
        // integers times a power of ten (negative scale: the powi path), moderate sizes
        6..=8 => {
            let nd = 1 + rng.below(45) as usize;
            let cfg = ValueCfg::swarm(rng, nd, 400);
            let (digits, _) = gen::gen_digits(rng, &cfg);
            let scale = -(rng.range(1, 330));
            Dec::new(rng.chance(1, 2), &digits, scale)
        }
        // exact halfway points between adjacent floats, and a hair to either side
        9 | 10 => {
            let bits = loop {
                let b = gen_f64_bits(rng) & 0x7FFF_FFFF_FFFF_FFFF;
                if f64::from_bits(b).is_finite() && b < f64::MAX.to_bits() {
                    break b;
                }
            };
            let (_, m, e) = f64_parts(bits).unwrap();
            // midpoint of f and its successor: (2m+1) * 2^(e-1)
            let mid = BigUint::from(m) * 2u32 + 1u32;
            let mut d = dec_from_m2e(rng.chance(1, 2), &mid, e - 1);
            match rng.below(3) {
                0 => {}
                1 => {
                    // just above: append ...0001
                    d = Dec { int: format!("{}0000000001", d.int), scale: d.scale + 10 };
                }
                _ => {
                    // just below: subtract one unit ten places further down
                    let i = d.bigint() * BigInt::from(10_000_000_000u64) - BigInt::from(if d.is_neg() { -1 } else { 1 });
                    d = Dec { int: i.to_string(), scale: d.scale + 10 };
                }
            }
            d
        }
        // around MAX, MIN_POSITIVE, the smallest subnormal and half of it
        11 | 12 => {
            let anchors: [(u64, i64); 5] = [((1u64 << 53) - 1, 971), (1, -1022), (1, -1074), (1, -1075), ((1u64 << 52) - 1, -1074)];
            let &(m, e) = rng.pick(&anchors);
            let base = dec_from_m2e(false, &BigUint::from(m), e);
            // multiply by (1 + k * 10^-j)
            let j = rng.range(8, 22) as u32;
            let k = rng.range(-9, 9);
            let factor = BigInt::from(pow10(j as u64)) + BigInt::from(k);
            let i = base.bigint() * factor;
            let neg = rng.chance(1, 2);
            Dec::new(neg, &i.magnitude().to_str_radix(10), base.scale + j as i64)
        }
        // scales beyond i32 and at the i32 boundary
        13 => {
            let nd = 1 + rng.below(30) as usize;
            let cfg = ValueCfg::swarm(rng, nd, 10);
            let (digits, _) = gen::gen_digits(rng, &cfg);
            let mags: [i64; 7] = [i32::MAX as i64, i32::MAX as i64 + 1, i32::MAX as i64 + 30, 4_000_000_000, 1_000_000_000_000_000, i32::MAX as i64 - 1, 3_000_000_000];
            let mag = *rng.pick(&mags) + rng.range(-2, 2);
            let scale = if rng.chance(1, 2) { mag } else { -mag };
            Dec::new(rng.chance(1, 2), &digits, scale)
        }
        // unusual but valid representations: significant digits padded with 19..140 trailing zeros and a
        // positive scale of about that size (what with_scale / arithmetic produce)
        14 if rng.chance(1, 2) => {
            let nd = 1 + rng.below(60) as usize;
            let mut sdig = String::new();
            sdig.push((b'1' + rng.below(9) as u8) as char);
            for _ in 1..nd {
                sdig.push((b'0' + rng.below(10) as u8) as char);
            }
            let zeros = 17 + rng.below(124) as usize;
            let scale = match rng.below(3) {
                0 => zeros as i64,
                1 => zeros as i64 + rng.range(-25, 25),
                _ => rng.range(1, 160),
            };
            Dec::new(rng.chance(1, 2), &format!("{}{}", sdig, "0".repeat(zeros)), scale)
        }
        // long digit strings (several 19-digit trimming rounds), any exponent in range
        14 => {
            let nd = 26 + rng.below(375) as usize;
            let mut s = String::new();
            s.push((b'1' + rng.below(9) as u8) as char);
            for _ in 1..nd {
                s.push((b'0' + rng.below(10) as u8) as char);
            }
            let le = rng.range(-330, 310);
            Dec::new(rng.chance(1, 2), &s, nd as i64 - 1 - le)
        }
        // decimal renderings of floats (shortest form) and small literals
        _ => {
            let f = f64::from_bits(gen_f64_bits(rng));
            if f.is_finite() {
                let s = format!("{:e}", f);
                match crate::refdec::parse_numeral(&s) {
                    Some(n) if n.scale.abs() < 2000 => Dec::new(n.int.sign() == Sign::Minus, &n.int.magnitude().to_str_radix(10), n.scale as i64),
                    _ => Dec::new(false, "1", 0),
                }
            } else {
                Dec::new(false, "5", rng.range(-30, 30))
            }
        }
    }
}

impl Property for C14 {
    type Trace = Trace;
    fn id(&self) -> &'static str {
        "C14"
    }
    fn level(&self) -> &'static str {
        "exploration"
    }
    fn runs(&self, tier: Tier) -> u64 {
        f32_sweep_runs(tier)
            + F64_GRID
            + TZ_GRID
            + WORD_GRID
            + EDGE_GRID
            + DEC_GRID
            + match tier {
                Tier::Quick => 150_000,
                Tier::Thorough => 12_000_000,
            }
    }

    fn generate(&self, rng: &mut Rng, tier: Tier, run: u64) -> Trace {
        let sweeps = f32_sweep_runs(tier);
        if run < sweeps {
            let item = match tier {
                Tier::Quick => Item::F32Sweep { start: run * 1024 * 4099, step: 4099, count: 1024 },
                Tier::Thorough => Item::F32Sweep { start: run * 65536, step: 1, count: 65536 },
            };
            return Trace { item, env: EnvSel::All, transport: 0 };
        }
        // deterministic enumerations after the f32 sweep: every f64 exponent field x 8 mantissa shapes,
        // then d x 10^k for every k in -400..=400 and a few digit strings d
        let r = run - sweeps;
        if r < F64_GRID {
            let ef = r / 8;
            let full = (1u64 << 52) - 1;
            let mant = match r % 8 {
                0 => 0,
                1 => 1,
                2 => full,
                3 => 1u64 << 51,
                4 => 1u64 << (ef % 52),
                5 => full & !((1u64 << (ef % 52)) - 1),
                6 => 0x000A_AAAA_AAAA_AAAA,
                _ => rng.next_u64() & full,
            };
            let sign = (ef + r) % 2;
            return Trace { item: Item::F64 { bits: (sign << 63) | (ef << 52) | mant }, env: EnvSel::All, transport: 0 };
        }
        let r = r - F64_GRID;
        if r < TZ_GRID {
            // mantissas with exactly tz trailing zero bits x binary exponents around the integer/fraction boundary
            let variant = r / (53 * 141);
            let r = r % (53 * 141);
            let tz = r % 53;
            let e = (r / 53) as i64 - 70; // value = mantissa * 2^(e-52), unbiased exponent e in -70..=70
            let full = (1u64 << 52) - 1;
            let upper = match variant {
                0 => rng.next_u64() & full,
                1 => full,
                _ => 0,
            };
            let mant = if tz >= 52 { 0 } else { (upper | (1u64 << tz)) & !((1u64 << tz) - 1) };
            let ef = (1023 + e) as u64;
            return Trace { item: Item::F64 { bits: ((r % 2) << 63) | (ef << 52) | mant }, env: EnvSel::All, transport: 0 };
        }
        let r = r - TZ_GRID;
        if r < WORD_GRID {
            // floats whose exact decimal integer m * 5^k sits at a machine-word boundary: m ~ W / 5^k for
            // W = 2^32, 2^64, 2^96, 2^128, 2^192, 2^256 (a native-width product or shift that just overflows)
            let delta = (r % 9) as i64 - 4;
            let k = (r / 9) % 112 + 1;
            let w = [32usize, 64, 96, 128, 192, 256][((r / (9 * 112)) % 6) as usize];
            let q = (pow2(w as u64) / pow5(k)).to_u64_digits();
            let m0 = if q.len() == 1 { q[0] as i128 } else { -1 };
            let m = m0 + delta as i128;
            if m0 >= 0 && m > 0 && m < (1i128 << 53) {
                let m = m as u64;
                // m * 2^-k as an f64: normalise the mantissa
                let lz = m.leading_zeros() as i64 - 11; // shift to put the top bit at position 52
                let mant = (m << lz) & ((1u64 << 52) - 1);
                let e = 52 - lz - k as i64; // value = 1.mant * 2^e
                if (-1022..=1023).contains(&e) {
                    let bits = (((r / 3) % 2) << 63) | (((e + 1023) as u64) << 52) | mant;
                    return Trace { item: Item::F64 { bits }, env: EnvSel::All, transport: 0 };
                }
            }
            return Trace { item: Item::F64 { bits: 0x3FF0_0000_0000_0000 + r }, env: EnvSel::All, transport: 0 };
        }
        let r = r - WORD_GRID;
        if r < EDGE_GRID {
            // decimals hugging the edges of the f64 range at every digit count: the first k digits of the exact
            // expansion of an anchor, with the last digit moved by -1 / 0 / +1, for k = 1..=400. Anchors: the
            // smallest subnormal, half of it (the round-to-zero boundary), MIN_POSITIVE, MAX, and MAX plus half an
            // ulp (the overflow boundary).
            let bump = (r % 3) as i64 - 1;
            let k = ((r / 3) % 400 + 1) as usize;
            let anchor = (r / 1200) % 5;
            let a = match anchor {
                0 => RefDec::from_m2e(false, 1, -1074),
                1 => RefDec::from_m2e(false, 1, -1075),
                2 => RefDec::from_m2e(false, 1, -1022),
                3 => RefDec::from_m2e(false, (1u64 << 53) - 1, 971),
                _ => RefDec::from_m2e(false, (1u64 << 54) - 1, 970),
            };
            let full = a.int.magnitude().to_str_radix(10);
            let le = full.len() as i128 - 1 + a.exp;
            let k = k.min(full.len());
            let mut p = crate::refdec::biguint_from_digits(full[..k].as_bytes());
            if bump > 0 {
                p += 1u32;
            } else if bump < 0 && p > BigUint::from(1u8) {
                p -= 1u32;
            }
            let scale = -(le - k as i128 + 1) as i64;
            return Trace { item: Item::Dec { value: Dec::new((r / 7) % 2 == 1, &p.to_str_radix(10), scale) }, env: EnvSel::All, transport: (r % 11) as u8 };
        }
        let r = r - EDGE_GRID;
        if r < DEC_GRID {
            let k = (r / 6) as i64 - 400;
            let digits = ["1", "5", "9", "17", "123456789", "99999999999999999999999999"][(r % 6) as usize];
            return Trace { item: Item::Dec { value: Dec::new((r / 6) % 2 == 1, digits, -k) }, env: EnvSel::All, transport: 0 };
        }
        let item = match rng.below(10) {
            0 => {
                // f32 at its own boundaries
                let efs: [u32; 8] = [0, 1, 2, 126, 127, 150, 254, 255];
                let ef = if rng.chance(1, 2) { *rng.pick(&efs) } else { rng.below(256) as u32 };
                let mant = match rng.below(4) {
                    0 => 0,
                    1 => 1,
                    2 => (1u32 << 23) - 1,
                    _ => rng.next_u64() as u32 & ((1u32 << 23) - 1),
                };
                Item::F32 { bits: ((rng.below(2) as u32) << 31) | (ef << 23) | mant }
            }
            1..=4 => Item::F64 { bits: gen_f64_bits(rng) },
            _ => Item::Dec { value: gen_decimal(rng) },
        };
        let transport = if matches!(item, Item::Dec { .. }) { rng.below(11) as u8 } else { 0 };
        Trace { item, env: EnvSel::All, transport }
    }

    fn execute(&self, t: &Trace, obs: &mut Obs) -> Vec<Failure> {
        let mut fails = vec![];
        let envs: Vec<FloatEnv> = match &t.env {
            EnvSel::All => ADMISSIBLE.iter().chain(STRESS.iter()).cloned().collect(),
            EnvSel::One(e) => {
                if *e == FloatEnv::Native {
                    vec![FloatEnv::Native]
                } else {
                    vec![FloatEnv::Native, *e]
                }
            }
        };
        match &t.item {
            Item::F32 { bits } => {
                let it = t.item.clone();
                obs.sig(&[14, 32, (*bits >> 23) as u64 & 0xFF, (*bits >> 31) as u64], false);
                obs.digest(&[*bits as u64]);
                if let Some(f) = self.check_float(&it, f32_parts(*bits), true, *bits as u64, &envs, obs) {
                    fails.push(f);
                }
            }
            Item::F64 { bits } => {
                let it = t.item.clone();
                obs.sig(&[14, 64, f64_class(*bits), *bits >> 63], false);
                obs.digest(&[*bits]);
                if let Some(f) = self.check_float(&it, f64_parts(*bits), false, *bits, &envs, obs) {
                    fails.push(f);
                }
            }
            Item::F32Sweep { start, step, count } => {
                let mut sigs = std::collections::BTreeSet::new();
                for j in 0..*count {
                    let p = start + j * step;
                    if p > u32::MAX as u64 {
                        break;
                    }
                    let bits = p as u32;
                    let it = Item::F32 { bits };
                    sigs.insert(((bits >> 23) & 0xFF) as u64 | ((bits >> 31) as u64) << 8);
                    if let Some(f) = self.check_float(&it, f32_parts(bits), true, bits as u64, &envs[..1], obs) {
                        fails.push(f);
                        if fails.len() >= 3 {
                            break;
                        }
                    }
                }
                obs.digest(&[*start, *step, *count, fails.len() as u64]);
                for s in sigs {
                    obs.sig(&[14, 32, s & 0xFF, s >> 8], false);
                }
                obs.reach("f32_sweep_block");
            }
            Item::Dec { value } => {
                let v = value.to_bd_via(t.transport);
                let r = value.to_ref();
                obs.digest_str(&value.int);
                obs.digest(&[value.scale as u64]);
                let lb = gen::len_bucket(value.ndigits());
                let ndigits = value.ndigits() as u64;
                let trims = ndigits.saturating_sub(25) / 19; // approximate count of 19-digit trimming rounds
                obs.reach(match trims {
                    0 => "to_f64_trim_rounds_0",
                    1 => "to_f64_trim_rounds_1",
                    _ => "to_f64_trim_rounds_2_or_more",
                });
                if value.scale > i32::MAX as i64 {
                    obs.reach("scale_above_i32_max");
                }
                if value.scale < i32::MIN as i64 {
                    obs.reach("scale_below_i32_min");
                }
                let mut site_calls = 0usize;
                let mut stress_would_fail = 0u64;
                for (i, env) in envs.iter().enumerate() {
                    if i > 0 && site_calls == 0 {
                        break; // the seam is not on this value's path
                    }
                    let (f, calls) = self.check_decimal(&t.item, value, &v, &r, env, obs);
                    obs.execs += 1;
                    if i == 0 {
                        site_calls = calls;
                        obs.execs_fault_free += 1;
                        if calls == 0 && !value.is_zero() && value.scale != 0 {
                            obs.reach("to_f64_string_parse_or_overflow_branch");
                        }
                    } else {
                        obs.execs_faulted += 1;
                        obs.fault(intern(&format!("powi_{}", env.name())));
                    }
                    let outcome = f.is_some() as u64;
                    obs.sig(&[14, 10, lb, (value.lead_exp().clamp(-340, 320) + 340) as u64 / 20, value.is_neg() as u64, env.code(), calls as u64, outcome], i > 0);
                    if let Some(f) = f {
                        if admissible(env) {
                            fails.push(f);
                            break;
                        } else {
                            stress_would_fail += 1;
                        }
                    }
                }
                obs.reach_n("stress_env_would_exceed_tolerance(evidence only)", stress_would_fail);
            }
        }
        fails
    }

    fn narrow(&self, t: &Trace, f: &Failure) -> Trace {
        let item: Item = f.focus.get("item").and_then(|v| serde_json::from_value(v.clone()).ok()).unwrap_or_else(|| t.item.clone());
        let env: FloatEnv = f.focus.get("env").and_then(|v| serde_json::from_value(v.clone()).ok()).unwrap_or(FloatEnv::Native);
        Trace { item, env: EnvSel::One(env), transport: t.transport }
    }

    fn shrink(&self, t: &Trace) -> Vec<Trace> {
        let mut out = vec![];
        if let EnvSel::One(e) = &t.env {
            match *e {
                FloatEnv::Native => {}
                FloatEnv::Ulp(d) => {
                    out.push(Trace { item: t.item.clone(), env: EnvSel::One(FloatEnv::Native), transport: t.transport });
                    if d.abs() > 1 {
                        out.push(Trace { item: t.item.clone(), env: EnvSel::One(FloatEnv::Ulp(d.signum())), transport: t.transport });
                        out.push(Trace { item: t.item.clone(), env: EnvSel::One(FloatEnv::Ulp(d / 2)), transport: t.transport });
                    }
                }
                _ => out.push(Trace { item: t.item.clone(), env: EnvSel::One(FloatEnv::Native), transport: t.transport }),
            }
        }
        match &t.item {
            Item::F32 { bits } => {
                let b = *bits;
                let mut c = vec![b & 0x7FFF_FFFF, b & !((1u32 << 23) - 1), b & 0xFFFF_0000, b & 0xFFFF_FF00];
                for i in 0..23 {
                    if b & (1 << i) != 0 {
                        c.push(b & !(1 << i));
                    }
                }
                for x in c {
                    if x != b {
                        out.push(Trace { item: Item::F32 { bits: x }, env: t.env.clone(), transport: t.transport });
                    }
                }
            }
            Item::F64 { bits } => {
                let b = *bits;
                let mut c = vec![b & 0x7FFF_FFFF_FFFF_FFFF, b & !((1u64 << 52) - 1), b & 0xFFFF_FFFF_0000_0000, b & 0xFFFF_FFFF_FFFF_0000];
                for i in 0..52 {
                    if b & (1 << i) != 0 {
                        c.push(b & !(1u64 << i));
                    }
                }
                for x in c {
                    if x != b {
                        out.push(Trace { item: Item::F64 { bits: x }, env: t.env.clone(), transport: t.transport });
                    }
                }
            }
            Item::F32Sweep { .. } => {}
            Item::Dec { value } => {
                for d in gen::shrink_dec(value) {
                    out.push(Trace { item: Item::Dec { value: d }, env: t.env.clone(), transport: t.transport });
                }
            }
        }
        out
    }

    fn rule_text(&self) -> String {
        "run = one conversion item x (native powi + admissible perturbations +-1,2,4,8 ULP + stress +-12,16,64 ULP which only feed margins). Items: f32 sweep blocks (quick: every 4099th bit pattern; thorough: all 2^32), f64 by exponent-field class with structured mantissas, decimals for to_f64 (1..400 digits x exponents -400..400, integer x 10^k, exact float midpoints +- a hair, neighbourhoods of MAX / MIN_POSITIVE / 2^-1074 / 2^-1075, scales beyond i32, 19-digit trimming rounds). An execution is non-trivial iff the powi seam was reached and perturbed; signatures = (item kind, exponent class / digit bucket, leading-exponent bucket, sign, environment, site calls, outcome).".into()
    }
    fn assumptions(&self) -> Vec<String> {
        vec![
            "admissible powi results: native +- 8 ULP (native error measured <= 6 ULP for n <= 308; Miri's model of the documented nondeterminism is +-4)".into(),
            "x87 excess precision and FTZ/DAZ at this site are not modelled".into(),
            "f32/f64 values are decoded from their bit patterns by the harness; the oracle never uses floating point arithmetic".into(),
            "std's decimal-to-float parser (used by to_f64 for positive scales) is real code and assumed correctly rounding".into(),
        ]
    }
    fn components(&self) -> Value {
        json!({"real": ["bigdecimal (working tree): TryFrom<f32/f64>, FromPrimitive, ToPrimitive::to_f64/to_f32 on BigDecimal and BigDecimalRef", "num-bigint (BigUint::to_f64)", "std float parser"],
               "stub": ["f64::powi result at the to_f64 site (verif_hooks float seam)", "RefDec oracle"]})
    }
    fn required_reach(&self, _tier: Tier) -> Vec<&'static str> {
        vec![
            "nan_or_infinity_rejected",
            "subnormal_f32_constructor",
            "subnormal_f64_constructor",
            "powi_exact_power_1_22",
            "powi_inexact_power_23_308",
            "powi_overflowing_power_gt_308",
            "to_f64_string_parse_or_overflow_branch",
            "to_f64_trim_rounds_0",
            "to_f64_trim_rounds_1",
            "to_f64_trim_rounds_2_or_more",
            "scale_above_i32_max",
            "scale_below_i32_min",
            "decimal_in_or_below_subnormal_range",
            "decimal_within_tolerance_of_f64_max_or_beyond",
            "result_infinite",
            "powi_ulp+8",
            "powi_ulp-8",
            "f32_sweep_block",
        ]
    }
    fn enumerated_runs(&self, tier: Tier) -> u64 {
        f32_sweep_runs(tier) + F64_GRID + TZ_GRID + WORD_GRID + EDGE_GRID + DEC_GRID
    }
    fn exhaustive_note(&self, tier: Tier) -> Option<String> {
        Some(match tier {
            Tier::Quick => "f32: every 4099th bit pattern (1,048,576 patterns) - a stride, not exhaustive".into(),
            Tier::Thorough => "f32 -> decimal -> f64/f32: all 2^32 bit patterns enumerated (exhaustive for that sub-space; uses no fault model because the powi seam is not on that path)".into(),
        })
    }
}
