//! C04 - every textual rendering parses back to the same decimal.
//!
//! Simulated system: one decimal, each way of printing it, and the caller-supplied `fmt::Write`
//! sink as the environment. Per (value, op) the sink-fault space is enumerated completely after a
//! recording dry run has learned the chunk sequence.

use crate::env::sink::{SimSink, SinkSpec};
use crate::framework::{catch, Failure, Obs, Property, Tier};
use crate::gen::{self, ValueCfg};
use crate::prng::Rng;
use crate::refdec::{parse_numeral, Dec, RefDec};
use crate::util::{clip, intern};
use bigdecimal::BigDecimal;
use serde::{Deserialize, Serialize};
use serde_json::{json, Value};
use std::fmt::Write as _;
use std::str::FromStr;

#[derive(Clone, Copy, Debug, PartialEq, Eq, Serialize, Deserialize, PartialOrd, Ord)]
#[serde(rename_all = "snake_case")]
pub enum Op {
    DisplayVal,
    DisplayRef,
    ToString,
    LowerExpVal,
    LowerExpRef,
    UpperExpVal,
    UpperExpRef,
    WriteSci,
    ToSci,
    WriteEng,
    ToEng,
    WritePlain,
    ToPlain,
}

pub const ALL_OPS: [Op; 13] = [
    Op::DisplayVal,
    Op::DisplayRef,
    Op::ToString,
    Op::LowerExpVal,
    Op::LowerExpRef,
    Op::UpperExpVal,
    Op::UpperExpRef,
    Op::WriteSci,
    Op::ToSci,
    Op::WriteEng,
    Op::ToEng,
    Op::WritePlain,
    Op::ToPlain,
];

impl Op {
    pub fn name(self) -> &'static str {
        match self {
            Op::DisplayVal => "display_value",
            Op::DisplayRef => "display_ref",
            Op::ToString => "to_string",
            Op::LowerExpVal => "lower_exp_value",
            Op::LowerExpRef => "lower_exp_ref",
            Op::UpperExpVal => "upper_exp_value",
            Op::UpperExpRef => "upper_exp_ref",
            Op::WriteSci => "write_scientific_notation",
            Op::ToSci => "to_scientific_notation",
            Op::WriteEng => "write_engineering_notation",
            Op::ToEng => "to_engineering_notation",
            Op::WritePlain => "write_plain_string",
            Op::ToPlain => "to_plain_string",
        }
    }
    fn code(self) -> u64 {
        self as u64
    }
    /// does the op take a caller-supplied sink?
    fn has_sink(self) -> bool {
        !matches!(self, Op::ToString | Op::ToSci | Op::ToEng | Op::ToPlain)
    }
    fn is_plain(self) -> bool {
        matches!(self, Op::WritePlain | Op::ToPlain)
    }
    fn is_eng(self) -> bool {
        matches!(self, Op::WriteEng | Op::ToEng)
    }
    fn is_display(self) -> bool {
        matches!(self, Op::DisplayVal | Op::DisplayRef | Op::ToString)
    }
    fn family(self) -> &'static str {
        match self {
            Op::DisplayVal | Op::DisplayRef | Op::ToString => "display",
            Op::LowerExpVal | Op::LowerExpRef => "lower_exp",
            Op::UpperExpVal | Op::UpperExpRef => "upper_exp",
            Op::WriteSci | Op::ToSci => "scientific",
            Op::WriteEng | Op::ToEng => "engineering",
            Op::WritePlain | Op::ToPlain => "plain",
        }
    }
}

#[derive(Clone, Debug, PartialEq, Eq, Serialize, Deserialize)]
#[serde(rename_all = "snake_case")]
pub enum EnvSel {
    /// fault-free plus the complete enumerated fault set of each op
    All,
    /// fault-free plus this one environment
    One(SinkSpec),
}

#[derive(Clone, Debug, Serialize, Deserialize)]
pub struct Trace {
    pub value: Dec,
    pub ops: Vec<Op>,
    pub env: EnvSel,
    /// how the value travelled before being printed (see Dec::to_bd_via); 0 = built freshly
    #[serde(default)]
    pub transport: u8,
}

pub struct C04;

/// plain notation materialises every zero: exercised up to this |scale| (a 100 kB string), short values only beyond 5000
const PLAIN_SCALE_LIMIT: i64 = 100_000;
const PLAIN_NEG_SCALE_LIMIT: i64 = (1 << 17) + 1;
const PLAIN_POS_SCALE_LIMIT: i64 = (1 << 24) + 2;
const PLAIN_SCALE_LIMIT_LONG_VALUES: i64 = 5000;
/// sign, '.', 'E', exponent sign and up to 20 exponent digits: the most the exponent forms add;
/// "0." plus 5 zeros or 15 trailing zeros are the most the plain forms add
const DISPLAY_OVERHEAD_LIMIT: usize = 24;
const LEADING_ZERO_THRESHOLD: i128 = 5;
const TRAILING_ZERO_THRESHOLD: i128 = 15;

/// every scale in -2100..=2100 (x 2 digit strings)
const SCALE_SWEEP: u64 = 4201 * 2;
/// scales 2^k-1, 2^k, 2^k+1: k = 5..=17 negative, k = 5..=24 positive; 4 digit strings
const POW2_SWEEP: u64 = (13 + 20) * 3 * 4;
/// every digit count 1..=1100
const LEN_SWEEP: u64 = 1100;
const GRID_LENS: u64 = 40;
const GRID_SCALES: u64 = 101; // -40..=60
const GRID_PATTERNS: u64 = 6;

fn grid_cells(tier: Tier) -> u64 {
    match tier {
        Tier::Quick => GRID_LENS * GRID_SCALES,
        Tier::Thorough => GRID_LENS * GRID_SCALES * GRID_PATTERNS * 2,
    }
}

fn pattern_digits(rng: &mut Rng, pat: u64, len: usize) -> String {
    match pat {
        0 => {
            let mut s = String::new();
            s.push((b'1' + rng.below(9) as u8) as char);
            for _ in 1..len {
                s.push((b'0' + rng.below(10) as u8) as char);
            }
            s
        }
        1 => "9".repeat(len),
        2 => format!("1{}", "0".repeat(len - 1)),
        3 => {
            if len == 1 {
                "1".into()
            } else {
                format!("1{}1", "0".repeat(len - 2))
            }
        }
        4 => {
            // significant digits followed by trailing zeros
            let k = len / 2;
            let mut s = String::new();
            s.push((b'1' + rng.below(9) as u8) as char);
            for _ in 1..(len - k) {
                s.push((b'1' + rng.below(9) as u8) as char);
            }
            s.push_str(&"0".repeat(k));
            s
        }
        _ => {
            if len == 1 {
                "0".into()
            } else {
                let d = (b'1' + rng.below(9) as u8) as char;
                std::iter::repeat(d).take(len).collect()
            }
        }
    }
}

fn run_op(op: Op, v: &BigDecimal, sink: &mut SimSink) -> Result<std::fmt::Result, String> {
    catch(move || match op {
        Op::DisplayVal => write!(sink, "{}", v),
        Op::DisplayRef => write!(sink, "{}", v.to_ref()),
        Op::ToString => sink.write_str(&v.to_string()),
        Op::LowerExpVal => write!(sink, "{:e}", v),
        Op::LowerExpRef => write!(sink, "{:e}", v.to_ref()),
        Op::UpperExpVal => write!(sink, "{:E}", v),
        Op::UpperExpRef => write!(sink, "{:E}", v.to_ref()),
        Op::WriteSci => v.write_scientific_notation(sink),
        Op::ToSci => sink.write_str(&v.to_scientific_notation()),
        Op::WriteEng => v.write_engineering_notation(sink),
        Op::ToEng => sink.write_str(&v.to_engineering_notation()),
        Op::WritePlain => v.write_plain_string(sink),
        Op::ToPlain => sink.write_str(&v.to_plain_string()),
    })
}

/// The complete fault set for an op whose fault-free run made these chunks
fn enumerate_envs(chunks: &[usize]) -> Vec<SinkSpec> {
    let n = chunks.len();
    let total: usize = chunks.iter().sum();
    let mut out = vec![];
    for k in 0..n {
        out.push(SinkSpec::FailAt { k, sticky: false });
        out.push(SinkSpec::FailAt { k, sticky: true });
    }
    let mut caps: Vec<usize> = (0..=total.min(24)).collect();
    for c in total.saturating_sub(2)..=total + 1 {
        caps.push(c);
    }
    caps.push(total / 2);
    let mut acc = 0usize;
    for &c in chunks {
        acc += c;
        caps.push(acc);
        caps.push(acc.saturating_sub(1));
        caps.push(acc + 1);
    }
    caps.sort();
    caps.dedup();
    for &capacity in &caps {
        out.push(SinkSpec::Bounded { capacity, sticky: false });
        // sticky differs from transient only if something is refused
        if capacity < total {
            out.push(SinkSpec::Bounded { capacity, sticky: true });
        }
    }
    for (k, &len) in chunks.iter().enumerate() {
        let mut ms = vec![0usize, 1, len / 2, len.saturating_sub(1)];
        ms.retain(|&m| m < len);
        ms.sort();
        ms.dedup();
        for m in ms {
            out.push(SinkSpec::PartialAccept { k, m });
        }
    }
    out
}

struct Ctx<'a> {
    d: &'a Dec,
    v: &'a BigDecimal,
    r: RefDec,
}

fn base_fail(rule: &'static str, op: Op, env: &SinkSpec, c: &Ctx, detail: String) -> Failure {
    Failure::new(rule, format!("{} of {}e{} [{}]: {}", op.name(), clip(&c.d.int, 40), -(c.d.scale as i128), env.kind(), detail))
        .fact("site", op.family())
        .fact("op", op.name())
        .fact("int_is_zero", c.d.is_zero())
        .fact("scale_nonzero", c.d.scale != 0)
        .fact("scale_sign", c.d.scale.signum())
        .fact("env", env.kind())
        .focus(json!({"ops": [serde_json::to_value(op).unwrap()], "env": serde_json::to_value(env).unwrap()}))
}

impl C04 {
    fn check_text(&self, op: Op, text: &str, c: &Ctx, obs: &mut Obs, fails: &mut Vec<Failure>) {
        let env = SinkSpec::Unbounded;
        // the crate's parser reads it back
        let parsed = catch(|| BigDecimal::from_str(text));
        let parsed = match parsed {
            Err(m) => {
                fails.push(base_fail("R0-no-panic", op, &env, c, format!("parser panicked on {:?}: {}", clip(text, 60), m)));
                return;
            }
            Ok(Err(e)) => {
                fails.push(base_fail("R1-parses-back", op, &env, c, format!("printed {:?}, which the parser rejects: {}", clip(text, 60), e)));
                return;
            }
            Ok(Ok(p)) => p,
        };
        // reference reading of the numeral
        let num = match parse_numeral(text) {
            Some(n) => n,
            None => {
                fails.push(base_fail("R1-parses-back", op, &env, c, format!("printed {:?}, which is not a decimal numeral", clip(text, 60))));
                return;
            }
        };
        let (pi, ps) = parsed.as_bigint_and_exponent();
        if pi != num.int || ps as i128 != num.scale {
            fails.push(base_fail(
                "R1-parser-agrees-with-reference",
                op,
                &env,
                c,
                format!("text {:?}: parser gives ({}, scale {}), the numeral denotes ({}, scale {})", clip(text, 60), clip(&pi.to_string(), 40), ps, clip(&num.int.to_string(), 40), num.scale),
            ));
            return;
        }
        let back = RefDec { int: num.int.clone(), exp: -num.scale };
        if !back.value_eq(&c.r) {
            fails.push(base_fail("R1-value-preserved", op, &env, c, format!("printed {:?}, which denotes {}", clip(text, 60), back.describe())));
            return;
        }
        // equality as the crate sees it
        let eq = catch(|| (parsed == *c.v, parsed.cmp(c.v) == std::cmp::Ordering::Equal));
        match eq {
            Ok((true, true)) => {}
            Ok((e, o)) => {
                fails.push(base_fail("R1-crate-equal", op, &env, c, format!("re-parsed {:?} has the right value but == is {} and cmp==Equal is {}", clip(text, 60), e, o)));
                return;
            }
            Err(m) => {
                fails.push(base_fail("R0-no-panic", op, &env, c, format!("comparison panicked: {}", m)));
                return;
            }
        }
        // identical digits and scale, except engineering notation and renderings that are an
        // integer padded with zeros (Display for scale in [-15,-1]; plain notation for scale < 0)
        let exempt = op.is_eng() || (op.is_display() && (-15..=-1).contains(&c.d.scale)) || (op.is_plain() && c.d.scale < 0);
        if exempt {
            obs.reach("identity_exempt_rendering");
        } else if num.int != c.r.int || num.scale != c.d.scale as i128 {
            fails.push(base_fail(
                "R1-digits-and-scale-preserved",
                op,
                &env,
                c,
                format!("printed {:?} = ({}, scale {}): digits/scale differ from the original (scale {})", clip(text, 60), clip(&num.int.to_string(), 40), num.scale, c.d.scale),
            ));
            return;
        }
        // Display: bounded length and exponent form beyond the thresholds
        if op.is_display() {
            let nd = c.d.ndigits();
            if text.len() > nd + DISPLAY_OVERHEAD_LIMIT {
                fails.push(base_fail("R4-display-length", op, &env, c, format!("{} bytes for {} digits (limit digits+{})", text.len(), nd, DISPLAY_OVERHEAD_LIMIT)));
                return;
            }
            let leading_zeros = c.d.scale as i128 - nd as i128;
            let trailing_zeros = -(c.d.scale as i128);
            let has_exp = text.contains('e') || text.contains('E');
            if leading_zeros > LEADING_ZERO_THRESHOLD {
                obs.reach("display_branch_exponential");
                if !has_exp {
                    fails.push(base_fail("R4-display-thresholds", op, &env, c, format!("{} leading zeros but no exponent form: {:?}", leading_zeros, clip(text, 60))));
                }
            } else if trailing_zeros > TRAILING_ZERO_THRESHOLD {
                obs.reach("display_branch_dotless_exponent");
                if !has_exp {
                    fails.push(base_fail("R4-display-thresholds", op, &env, c, format!("{} trailing zeros but no exponent form: {:?}", trailing_zeros, clip(text, 60))));
                }
            } else {
                obs.reach("display_branch_full_scale");
                // documented (README "Formatting"): within the thresholds the number is printed in
                // standard decimal notation
                if has_exp {
                    fails.push(base_fail("R4-display-thresholds", op, &env, c, format!("{} leading / {} trailing zeros are within the documented thresholds (5 / 15) but the text uses an exponent: {:?}", leading_zeros.max(0), trailing_zeros.max(0), clip(text, 60))));
                }
                if leading_zeros == LEADING_ZERO_THRESHOLD {
                    obs.reach("display_at_leading_zero_threshold");
                }
                if trailing_zeros == TRAILING_ZERO_THRESHOLD {
                    obs.reach("display_at_trailing_zero_threshold");
                }
            }
        }
    }
}

impl Property for C04 {
    type Trace = Trace;
    fn id(&self) -> &'static str {
        "C04"
    }
    fn level(&self) -> &'static str {
        "fault_enumeration"
    }
    fn runs(&self, tier: Tier) -> u64 {
        grid_cells(tier)
            + SCALE_SWEEP
            + POW2_SWEEP
            + LEN_SWEEP
            + match tier {
                Tier::Quick => 36_000,
                Tier::Thorough => 3_000_000,
            }
    }

    fn generate(&self, rng: &mut Rng, tier: Tier, run: u64) -> Trace {
        let cells = grid_cells(tier);
        if run < cells {
            // deterministic enumeration: every scale in [-40,60] for every digit length 1..40
            let len = (run % GRID_LENS) as usize + 1;
            let scale = ((run / GRID_LENS) % GRID_SCALES) as i64 - 40;
            let rest = run / (GRID_LENS * GRID_SCALES);
            let (pat, neg) = match tier {
                Tier::Quick => ((len as u64 + scale.unsigned_abs()) % GRID_PATTERNS, (run / 7) % 2 == 1),
                Tier::Thorough => (rest % GRID_PATTERNS, rest / GRID_PATTERNS == 1),
            };
            let digits = pattern_digits(rng, pat, len);
            return Trace { value: Dec::new(neg, &digits, scale), ops: ALL_OPS.to_vec(), env: EnvSel::All, transport: (run % 11) as u8 };
        }
        // two more deterministic sweeps: block boundaries of any buffered writer show up as particular scales
        // (plain notation pads |scale| zeros) and particular digit counts (every notation copies the digits)
        let r = run - cells;
        if r < SCALE_SWEEP {
            let scale = r as i64 / 2 - 2100;
            let digits = if r % 2 == 0 { "1".to_string() } else { format!("{}", 100 + rng.below(900)) };
            return Trace { value: Dec::new((r / 2) % 2 == 1, &digits, scale), ops: ALL_OPS.to_vec(), env: EnvSel::All, transport: (r % 11) as u8 };
        }
        let r = r - SCALE_SWEEP;
        if r < POW2_SWEEP {
            // scales at powers of two +-1 (buffer pages, 16-bit widths, size caps): 2^5 .. 2^17 on both sides,
            // up to 2^24 on the positive side; digit strings 0, 1, 7 (negative), 123
            let which = r % 4;
            let d = (r / 4) % 3;
            let kidx = r / 12;
            let (k, neg_side) = if kidx < 13 { (5 + kidx, true) } else { (5 + (kidx - 13), false) };
            let mag = (1i64 << k) + d as i64 - 1;
            let (digits, neg) = [("0", false), ("1", false), ("7", true), ("123", false)][which as usize];
            let scale = if neg_side { -mag } else { mag };
            return Trace { value: Dec::new(neg, digits, scale), ops: ALL_OPS.to_vec(), env: EnvSel::All, transport: (r % 11) as u8 };
        }
        let r = r - POW2_SWEEP;
        if r < LEN_SWEEP {
            let len = r as usize + 1;
            let mut digits = String::with_capacity(len);
            digits.push((b'1' + rng.below(9) as u8) as char);
            for _ in 1..len {
                digits.push((b'0' + rng.below(10) as u8) as char);
            }
            if r % 4 == 3 {
                // 1 followed by zeros, scale exactly 0 (a round integer written out in full)
                digits = format!("1{}", "0".repeat(len - 1));
            }
            let scale = match r % 3 {
                _ if r % 4 == 3 => 0,
                0 => 0,
                1 => rng.range(-30, len as i64 + 30),
                _ => len as i64 + rng.range(-2, 8),
            };
            // the sink-fault set is independent of the digit count: one environment keeps long values cheap
            return Trace { value: Dec::new(r % 2 == 1, &digits, scale), ops: ALL_OPS.to_vec(), env: EnvSel::One(SinkSpec::FailAt { k: (r % 5) as usize, sticky: false }), transport: (r % 11) as u8 };
        }
        let cfg = ValueCfg::swarm(rng, 3000, 1_000_000_000_000_000);
        let (value, _) = gen::gen_dec(rng, &cfg);
        let transport = rng.below(11) as u8;
        Trace { value, ops: ALL_OPS.to_vec(), env: EnvSel::All, transport }
    }

    fn execute(&self, t: &Trace, obs: &mut Obs) -> Vec<Failure> {
        let mut fails = vec![];
        let v = t.value.to_bd_via(t.transport);
        let c = Ctx { d: &t.value, v: &v, r: t.value.to_ref() };
        let lb = gen::len_bucket(t.value.ndigits());
        let sb = gen::scale_bucket(t.value.scale, t.value.ndigits());
        let neg = t.value.is_neg() as u64;
        obs.digest_str(&t.value.int);
        obs.digest(&[t.value.scale as u64]);
        let mut texts: Vec<(Op, String)> = vec![];

        for &op in &t.ops {
            // plain notation materialises every zero. Trailing zeros (negative scale) make the *parser* quadratic, so
            // they stop at 2^17+1; leading zeros (positive scale) parse in linear time and go up to 2^24+2 for short
            // values (one 16 MB string per rendering: only under a single sink environment, see `huge` below)
            let huge = t.value.scale > PLAIN_SCALE_LIMIT;
            if op.is_plain() && (t.value.scale < -PLAIN_NEG_SCALE_LIMIT || t.value.scale > PLAIN_POS_SCALE_LIMIT || (t.value.scale.abs() > PLAIN_SCALE_LIMIT_LONG_VALUES && t.value.ndigits() > 40)) {
                continue;
            }
            if op.is_plain() && t.value.scale.abs() > 65_535 {
                obs.reach("plain_scale_beyond_65535");
            }
            // ---- fault-free execution (also the recording dry run)
            let mut sink = SimSink::new(SinkSpec::Unbounded);
            let res = run_op(op, &v, &mut sink);
            obs.execs += 1;
            obs.execs_fault_free += 1;
            obs.steps += sink.calls() as u64;
            obs.sig(&[4, op.code(), lb, sb, neg, 0, sink.calls() as u64], false);
            let text = match res {
                Err(m) => {
                    fails.push(base_fail("R0-no-panic", op, &SinkSpec::Unbounded, &c, format!("panicked: {}", m)));
                    continue;
                }
                Ok(Err(_)) => {
                    fails.push(base_fail("R1-no-spurious-error", op, &SinkSpec::Unbounded, &c, "returned Err although the sink never refused anything".into()));
                    continue;
                }
                Ok(Ok(())) => sink.buf.clone(),
            };
            obs.digest_str(&text);
            let before = fails.len();
            self.check_text(op, &text, &c, obs, &mut fails);
            if matches!(op, Op::WritePlain) && t.value.scale >= t.value.ndigits() as i64 {
                obs.reach("plain_scale_ge_digit_count");
            }
            if matches!(op, Op::WriteEng) && !t.value.is_zero() {
                let top = t.value.ndigits() as i128 - t.value.scale as i128;
                let shift = match top.rem_euclid(3) {
                    0 => 3,
                    i => i as usize,
                };
                if shift > t.value.ndigits() {
                    obs.reach("engineering_zero_padding");
                }
            }
            texts.push((op, text.clone()));
            if fails.len() > before || !op.has_sink() {
                continue;
            }
            // ---- faulted executions
            let chunks = sink.chunks();
            let envs: Vec<SinkSpec> = match &t.env {
                EnvSel::All if huge && op.is_plain() => vec![SinkSpec::FailAt { k: chunks.len().saturating_sub(1), sticky: false }, SinkSpec::Bounded { capacity: 64, sticky: false }],
                EnvSel::All => enumerate_envs(&chunks),
                EnvSel::One(e) => vec![e.clone()],
            };
            for env in envs {
                if env == SinkSpec::Unbounded {
                    continue;
                }
                let mut sink = SimSink::new(env.clone());
                let res = run_op(op, &v, &mut sink);
                obs.execs += 1;
                obs.steps += sink.calls() as u64;
                let fired = sink.refusals > 0;
                if fired {
                    obs.execs_faulted += 1;
                    obs.fault(intern(&format!("sink_{}", env.kind())));
                    obs.reach(intern(&format!("refusal:{}:call{}", op.family(), sink.first_refusal.unwrap_or(0).min(7))));
                    if sink.accepted_after_refusal > 0 {
                        obs.reach("sink_accepted_a_chunk_after_refusing_one");
                    }
                } else {
                    obs.execs_fault_free += 1;
                }
                let outcome = match &res {
                    Err(_) => 2u64,
                    Ok(Err(_)) => 1,
                    Ok(Ok(())) => 0,
                };
                obs.sig(
                    &[4, op.code(), lb, sb, neg, env.kind_code(), sink.first_refusal.map_or(99, |k| k as u64), sink.calls() as u64, outcome, sink.accepted_after_refusal.min(3) as u64],
                    fired,
                );
                obs.digest(&[op.code(), env.kind_code(), outcome, sink.buf.len() as u64, sink.calls() as u64]);
                match res {
                    Err(m) => fails.push(base_fail("R0-no-panic", op, &env, &c, format!("panicked: {}", m))),
                    Ok(Ok(())) => {
                        // acknowledged => the sink holds exactly the text
                        if sink.buf != text {
                            fails.push(base_fail(
                                "R1-acknowledged-implies-correct",
                                op,
                                &env,
                                &c,
                                format!("returned Ok but the sink holds {:?} instead of {:?} ({} refusal(s), first at call {:?})", clip(&sink.buf, 50), clip(&text, 50), sink.refusals, sink.first_refusal),
                            ));
                        }
                    }
                    Ok(Err(_)) => {
                        if !fired {
                            fails.push(base_fail("R1-no-spurious-error", op, &env, &c, "returned Err although the sink never refused anything".into()));
                        } else {
                            obs.reach("error_propagated_to_caller");
                        }
                    }
                }
            }
        }

        // references derived with abs() / neg: their renderings must denote |v| and -v with v's digits and scale
        if t.ops.len() == ALL_OPS.len() {
            let texts2 = catch(|| {
                let r = v.to_ref();
                (format!("{}", r.abs()), format!("{:e}", r.abs()), format!("{}", -r), format!("{:e}", -r))
            });
            obs.execs += 4;
            obs.execs_fault_free += 4;
            match texts2 {
                Err(m) => fails.push(base_fail("R0-no-panic", Op::DisplayRef, &SinkSpec::Unbounded, &c, format!("formatting abs()/neg of the reference panicked: {}", m))),
                Ok((a1, a2, n1, n2)) => {
                    let want_abs = c.r.abs();
                    let want_neg = c.r.neg();
                    for (what, text, want, display) in [("abs", &a1, &want_abs, true), ("abs {:e}", &a2, &want_abs, false), ("neg", &n1, &want_neg, true), ("neg {:e}", &n2, &want_neg, false)] {
                        let ok = match parse_numeral(text) {
                            Some(n) => {
                                let back = RefDec { int: n.int.clone(), exp: -n.scale };
                                let exempt = display && (-15..=-1).contains(&t.value.scale);
                                if exempt { back.value_eq(want) } else { back.int == want.int && back.exp == want.exp }
                            }
                            None => false,
                        };
                        if !ok {
                            fails.push(base_fail("R3-forms-agree", Op::DisplayRef, &SinkSpec::Unbounded, &c, format!("to_ref().{} prints {:?}, which does not denote {}", what, clip(text, 50), want.describe())));
                        }
                    }
                    obs.reach("derived_references_printed");
                }
            }
        }

        // R3: wrapper and writer agree byte for byte; value and reference forms agree
        let get = |o: Op| texts.iter().find(|(p, _)| *p == o).map(|(_, s)| s.as_str());
        let pairs: [(Op, Op); 8] = [
            (Op::DisplayVal, Op::DisplayRef),
            (Op::DisplayVal, Op::ToString),
            (Op::LowerExpVal, Op::LowerExpRef),
            (Op::UpperExpVal, Op::UpperExpRef),
            (Op::WriteSci, Op::ToSci),
            (Op::WriteEng, Op::ToEng),
            (Op::WritePlain, Op::ToPlain),
            (Op::LowerExpVal, Op::UpperExpVal),
        ];
        for (a, b) in pairs {
            if let (Some(x), Some(y)) = (get(a), get(b)) {
                let same = if (a, b) == (Op::LowerExpVal, Op::UpperExpVal) { x.replace('e', "E") == y } else { x == y };
                if !same {
                    let mut f = base_fail("R3-forms-agree", a, &SinkSpec::Unbounded, &c, format!("{} gives {:?} but {} gives {:?}", a.name(), clip(x, 50), b.name(), clip(y, 50)));
                    f.focus = json!({"ops": [serde_json::to_value(a).unwrap(), serde_json::to_value(b).unwrap()], "env": serde_json::to_value(SinkSpec::Unbounded).unwrap()});
                    fails.push(f);
                }
            }
        }
        fails
    }

    fn narrow(&self, t: &Trace, f: &Failure) -> Trace {
        let ops: Vec<Op> = f.focus.get("ops").and_then(|v| serde_json::from_value(v.clone()).ok()).unwrap_or_else(|| t.ops.clone());
        let env: SinkSpec = f.focus.get("env").and_then(|v| serde_json::from_value(v.clone()).ok()).unwrap_or(SinkSpec::Unbounded);
        Trace { value: t.value.clone(), ops, env: EnvSel::One(env), transport: t.transport }
    }

    fn shrink(&self, t: &Trace) -> Vec<Trace> {
        let mut out = vec![];
        if let EnvSel::One(env) = &t.env {
            let mut envs = vec![];
            match env {
                SinkSpec::Unbounded => {}
                SinkSpec::FailAt { k, sticky } => {
                    if *sticky {
                        envs.push(SinkSpec::FailAt { k: *k, sticky: false });
                    }
                    if *k > 0 {
                        envs.push(SinkSpec::FailAt { k: 0, sticky: *sticky });
                        envs.push(SinkSpec::FailAt { k: k - 1, sticky: *sticky });
                    }
                }
                SinkSpec::Bounded { capacity, sticky } => {
                    if *sticky {
                        envs.push(SinkSpec::Bounded { capacity: *capacity, sticky: false });
                    }
                    if *capacity > 0 {
                        envs.push(SinkSpec::Bounded { capacity: 0, sticky: *sticky });
                        envs.push(SinkSpec::Bounded { capacity: capacity / 2, sticky: *sticky });
                        envs.push(SinkSpec::Bounded { capacity: capacity - 1, sticky: *sticky });
                    }
                    envs.push(SinkSpec::FailAt { k: 0, sticky: false });
                }
                SinkSpec::PartialAccept { k, m } => {
                    envs.push(SinkSpec::FailAt { k: *k, sticky: false });
                    if *m > 0 {
                        envs.push(SinkSpec::PartialAccept { k: *k, m: 0 });
                    }
                    if *k > 0 {
                        envs.push(SinkSpec::PartialAccept { k: k - 1, m: *m });
                    }
                }
            }
            for e in envs {
                out.push(Trace { value: t.value.clone(), ops: t.ops.clone(), env: EnvSel::One(e), transport: t.transport });
            }
        }
        if t.ops.len() > 1 {
            for i in 0..t.ops.len() {
                let mut ops = t.ops.clone();
                ops.remove(i);
                out.push(Trace { value: t.value.clone(), ops, env: t.env.clone(), transport: t.transport });
            }
        }
        if t.transport != 0 {
            out.push(Trace { transport: 0, ..t.clone() });
        }
        for d in gen::shrink_dec(&t.value) {
            out.push(Trace { value: d, ops: t.ops.clone(), env: t.env.clone(), transport: t.transport });
        }
        out
    }

    fn rule_text(&self) -> String {
        "run = one decimal x 13 render ops x (fault-free sink + the complete enumerated sink-fault set of that op: FailAt(k) transient/sticky for every sink call k, Bounded(capacity) transient/sticky for capacities 0..24, every chunk boundary +-1 and L-2..L+1, PartialAccept(k,m)). Values: deterministic grid (every scale in [-40,60] x every length 1..40) then swarm-generated (1..3000 digits, scale to +-10^15). An execution is non-trivial iff its sink actually refused a write; executions are distinct by signature = (op, digit-length bucket, scale bucket, sign, sink kind, index of first refused call, number of sink calls, outcome, whether the sink accepted anything after refusing).".into()
    }
    fn assumptions(&self) -> Vec<String> {
        vec![
            "default build configuration (RUST_BIGDECIMAL_* unset): Display thresholds 5 / 15".into(),
            "identity of digits and scale is not demanded of engineering notation, of Display for scale in [-15,-1], nor of plain notation for negative scale (an integer numeral cannot carry a negative scale); value equality is".into(),
            "plain notation materialises every zero: exercised for scales from -(2^17+1) to 2^24+2 for short values (trailing zeros make the parser quadratic, leading zeros do not), |scale| <= 5000 for values longer than 40 digits".into(),
            "a sink that reports an error has refused the whole chunk (or accepted the stated prefix); the text is ASCII".into(),
            "oracle arithmetic: num-bigint (shared dependency) with harness-owned numeral parser and power-of-ten construction".into(),
        ]
    }
    fn components(&self) -> Value {
        json!({"real": ["bigdecimal (working tree): Display/LowerExp/UpperExp, write_scientific_notation, write_engineering_notation, write_plain_string, to_* wrappers, FromStr", "num-bigint", "core::fmt (Formatter, pad_integral, write!)"],
               "stub": ["fmt::Write sinks (SimSink: unbounded, fail-at, bounded, partial-accept)", "reference numeral parser / RefDec oracle"]})
    }
    fn required_reach(&self, tier: Tier) -> Vec<&'static str> {
        let mut v = vec![
            "display_branch_exponential",
            "display_branch_dotless_exponent",
            "display_branch_full_scale",
            "display_at_leading_zero_threshold",
            "display_at_trailing_zero_threshold",
            "plain_scale_ge_digit_count",
            "plain_scale_beyond_65535",
            "engineering_zero_padding",
            "error_propagated_to_caller",
            "sink_fail_at_transient",
            "sink_bounded_transient",
            "sink_partial_accept",
            "refusal:scientific:call0",
            "refusal:scientific:call1",
            "refusal:scientific:call2",
            "refusal:scientific:call3",
            "refusal:scientific:call4",
            "refusal:scientific:call5",
            "refusal:engineering:call0",
            "refusal:engineering:call1",
            "refusal:engineering:call2",
            "refusal:engineering:call3",
            "refusal:engineering:call4",
            "refusal:engineering:call5",
            "refusal:plain:call0",
            "refusal:display:call0",
            "refusal:display:call1",
        ];
        let _ = tier;
        v.sort();
        v
    }
    fn enumerated_runs(&self, tier: Tier) -> u64 {
        grid_cells(tier) + SCALE_SWEEP + POW2_SWEEP + LEN_SWEEP
    }
    fn exhaustive_note(&self, tier: Tier) -> Option<String> {
        Some(match tier {
            Tier::Quick => "grid: every (digit length 1..40, scale -40..60) pair once (pattern and sign rotate); per execution the sink-fault set is enumerated completely".into(),
            Tier::Thorough => "grid: every (digit length 1..40, scale -40..60) pair x 6 digit patterns x both signs; per execution the sink-fault set is enumerated completely".into(),
        })
    }
}
