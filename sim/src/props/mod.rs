pub mod c04;
pub mod c14;
pub mod c12;
