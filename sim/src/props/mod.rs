pub mod c04;
pub mod c14;
pub mod c12;
pub mod c17;
pub mod c17_oracle;
pub mod c17_types;
