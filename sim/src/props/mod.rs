pub mod c04;
