//! Simulated `fmt::Write` sinks: the caller-supplied writer of write_scientific_notation & co.

use serde::{Deserialize, Serialize};
use std::fmt;

#[derive(Clone, Debug, PartialEq, Eq, Serialize, Deserialize)]
#[serde(tag = "kind", rename_all = "snake_case")]
pub enum SinkSpec {
    /// a `String`: never fails (the fault-free environment)
    Unbounded,
    /// the k-th `write_str` call (0-based) fails without writing; sticky = every later call fails too
    FailAt { k: usize, sticky: bool },
    /// fixed-capacity buffer (ArrayString / heapless::String semantics): a chunk that does not fit is
    /// refused without writing; a later, shorter chunk may fit unless sticky
    Bounded { capacity: usize, sticky: bool },
    /// io-adapter semantics: call k writes the first m bytes of its chunk, then reports an error
    PartialAccept { k: usize, m: usize },
}

impl SinkSpec {
    pub fn kind(&self) -> &'static str {
        match self {
            SinkSpec::Unbounded => "unbounded",
            SinkSpec::FailAt { sticky: false, .. } => "fail_at_transient",
            SinkSpec::FailAt { sticky: true, .. } => "fail_at_sticky",
            SinkSpec::Bounded { sticky: false, .. } => "bounded_transient",
            SinkSpec::Bounded { sticky: true, .. } => "bounded_sticky",
            SinkSpec::PartialAccept { .. } => "partial_accept",
        }
    }
    pub fn kind_code(&self) -> u64 {
        match self {
            SinkSpec::Unbounded => 0,
            SinkSpec::FailAt { sticky: false, .. } => 1,
            SinkSpec::FailAt { sticky: true, .. } => 2,
            SinkSpec::Bounded { sticky: false, .. } => 3,
            SinkSpec::Bounded { sticky: true, .. } => 4,
            SinkSpec::PartialAccept { .. } => 5,
        }
    }
}

#[derive(Clone, Debug, PartialEq, Eq)]
pub struct SinkEvent {
    pub len: usize,
    pub accepted: usize,
    pub refused: bool,
}

pub struct SimSink {
    pub spec: SinkSpec,
    pub buf: String,
    pub events: Vec<SinkEvent>,
    pub refusals: usize,
    pub first_refusal: Option<usize>,
    pub accepted_after_refusal: usize,
    dead: bool,
}

impl SimSink {
    pub fn new(spec: SinkSpec) -> SimSink {
        SimSink { spec, buf: String::new(), events: vec![], refusals: 0, first_refusal: None, accepted_after_refusal: 0, dead: false }
    }
    pub fn calls(&self) -> usize {
        self.events.len()
    }
    pub fn chunks(&self) -> Vec<usize> {
        self.events.iter().map(|e| e.len).collect()
    }
    fn refuse(&mut self, len: usize, accepted: usize) -> fmt::Result {
        if self.first_refusal.is_none() {
            self.first_refusal = Some(self.events.len());
        }
        self.refusals += 1;
        self.events.push(SinkEvent { len, accepted, refused: true });
        Err(fmt::Error)
    }
}

impl fmt::Write for SimSink {
    fn write_str(&mut self, s: &str) -> fmt::Result {
        let idx = self.events.len();
        if self.dead {
            return self.refuse(s.len(), 0);
        }
        match self.spec.clone() {
            SinkSpec::Unbounded => {}
            SinkSpec::FailAt { k, sticky } => {
                if idx == k {
                    self.dead = sticky;
                    return self.refuse(s.len(), 0);
                }
            }
            SinkSpec::Bounded { capacity, sticky } => {
                if self.buf.len() + s.len() > capacity {
                    self.dead = sticky;
                    return self.refuse(s.len(), 0);
                }
            }
            SinkSpec::PartialAccept { k, m } => {
                if idx == k {
                    // all text the crate prints is ASCII; stay on a char boundary regardless
                    let mut m = m.min(s.len());
                    while m > 0 && !s.is_char_boundary(m) {
                        m -= 1;
                    }
                    self.buf.push_str(&s[..m]);
                    return self.refuse(s.len(), m);
                }
            }
        }
        if self.first_refusal.is_some() {
            self.accepted_after_refusal += 1;
        }
        self.buf.push_str(s);
        self.events.push(SinkEvent { len: s.len(), accepted: s.len(), refused: false });
        Ok(())
    }
}
