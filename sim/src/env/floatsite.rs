//! The float-intrinsic seam: installs the thread-local hook of `bigdecimal::verif_hooks` for the
//! duration of one execution and plays the fault plan at the site.

use bigdecimal::verif_hooks::{self, FloatSite, StepSite};
use serde::{Deserialize, Serialize};
use std::cell::RefCell;
use std::rc::Rc;

/// What the platform's intrinsic returns instead of the native result
#[derive(Clone, Copy, Debug, PartialEq, Eq, Serialize, Deserialize, PartialOrd, Ord)]
#[serde(tag = "kind", content = "arg", rename_all = "snake_case")]
pub enum FloatEnv {
    /// this machine's result
    Native,
    /// native result moved by this many units in the last place
    Ulp(i32),
    /// call-to-call variation ("can even differ within the same execution from one invocation to the
    /// next"): +d ULP on even calls at the site, -d ULP on odd calls
    UlpAlt(i32),
    /// a subnormal result is flushed to zero (FTZ/DAZ)
    FlushSubnormal,
    /// a native result of exactly 0 becomes the smallest subnormal (for exp2(-1075) the true value 2^-1075 is a
    /// tie between the two, so either is within one ULP)
    ZeroToMinSubnormal,
    /// relative error 2^-k (sign = direction): stress only, never bears a verdict
    Rel(i32),
    /// the result is replaced by zero, forcing any "intrinsic unusable" fallback: stress only
    ForceZero,
}

impl FloatEnv {
    pub fn code(&self) -> u64 {
        match *self {
            FloatEnv::Native => 0,
            FloatEnv::Ulp(d) => (100_000 + d as i64) as u64,
            FloatEnv::FlushSubnormal => 1,
            FloatEnv::ZeroToMinSubnormal => 3,
            FloatEnv::UlpAlt(d) => (300_000 + d as i64) as u64,
            FloatEnv::Rel(k) => (200_000 + k as i64) as u64,
            FloatEnv::ForceZero => 2,
        }
    }
    pub fn name(&self) -> String {
        match *self {
            FloatEnv::Native => "native".into(),
            FloatEnv::Ulp(d) => format!("ulp{:+}", d),
            FloatEnv::FlushSubnormal => "flush_subnormal".into(),
            FloatEnv::ZeroToMinSubnormal => "zero_to_min_subnormal".into(),
            FloatEnv::UlpAlt(d) => format!("ulp_alternating{:+}", d),
            FloatEnv::Rel(k) => format!("rel2^-{}{}", k.abs(), if k < 0 { "(down)" } else { "(up)" }),
            FloatEnv::ForceZero => "force_zero".into(),
        }
    }
    pub fn apply(&self, real: f64) -> f64 {
        self.apply_nth(real, 0)
    }
    /// result for the n-th call (0-based) at the site in this execution
    pub fn apply_nth(&self, real: f64, n: usize) -> f64 {
        match *self {
            FloatEnv::Native => real,
            FloatEnv::Ulp(d) => nudge(real, d as i64),
            FloatEnv::UlpAlt(d) => nudge(real, if n % 2 == 0 { d as i64 } else { -(d as i64) }),
            FloatEnv::ZeroToMinSubnormal => {
                if real == 0.0 {
                    f64::from_bits(1)
                } else {
                    real
                }
            }
            FloatEnv::FlushSubnormal => {
                if real != 0.0 && real.abs() < f64::MIN_POSITIVE {
                    0.0
                } else {
                    real
                }
            }
            FloatEnv::Rel(k) => {
                if !real.is_finite() {
                    return real;
                }
                let eps = (2.0f64).powi(-k.abs());
                if k < 0 {
                    real * (1.0 - eps)
                } else {
                    real * (1.0 + eps)
                }
            }
            FloatEnv::ForceZero => 0.0,
        }
    }
}

/// Move a finite float `d` steps along the ordered line of floats, staying finite and keeping the sign.
pub fn nudge(x: f64, d: i64) -> f64 {
    if !x.is_finite() || x == 0.0 || d == 0 {
        return x;
    }
    let bits = x.to_bits();
    let mag = bits & 0x7FFF_FFFF_FFFF_FFFF;
    let sign = bits & 0x8000_0000_0000_0000;
    let max_mag = f64::MAX.to_bits();
    let new_mag = if d > 0 { mag.saturating_add(d as u64).min(max_mag) } else { mag.saturating_sub(d.unsigned_abs()).max(1) };
    f64::from_bits(sign | new_mag)
}

#[derive(Default, Debug, Clone)]
pub struct SiteLog {
    /// (argument, native result, returned result) of every call at the site of interest
    pub calls: Vec<(f64, f64, f64)>,
}

/// RAII installation of a float hook for one site; other sites pass through untouched.
pub struct FloatHookGuard {
    pub log: Rc<RefCell<SiteLog>>,
}

impl FloatHookGuard {
    pub fn install(site: FloatSite, env: FloatEnv) -> FloatHookGuard {
        let log = Rc::new(RefCell::new(SiteLog::default()));
        let l2 = log.clone();
        verif_hooks::set_float_hook(Some(Box::new(move |s, arg, real| {
            if s != site {
                return real;
            }
            let n = l2.borrow().calls.len();
            let out = env.apply_nth(real, n);
            l2.borrow_mut().calls.push((arg, real, out));
            out
        })));
        FloatHookGuard { log }
    }
    pub fn calls(&self) -> Vec<(f64, f64, f64)> {
        self.log.borrow().calls.clone()
    }
}

impl Drop for FloatHookGuard {
    fn drop(&mut self) {
        verif_hooks::set_float_hook(None);
    }
}

/// Payload of the simulated watchdog's panic
#[derive(Debug, Clone)]
pub struct WatchdogTrip {
    pub ticks: u64,
    pub reason: &'static str,
    pub exponent: i128,
}

#[derive(Default, Debug, Clone)]
pub struct StepLog {
    pub ticks: u64,
}

/// RAII installation of the step watchdog on the inverse loop: trips (panics with `WatchdogTrip`)
/// when the tick budget is exhausted or the iterate's decimal exponent leaves [lo, hi].
pub struct StepHookGuard {
    pub log: Rc<RefCell<StepLog>>,
}

impl StepHookGuard {
    pub fn install(budget: u64, exp_lo: i128, exp_hi: i128) -> StepHookGuard {
        let log = Rc::new(RefCell::new(StepLog::default()));
        let l2 = log.clone();
        verif_hooks::set_step_hook(Some(Box::new(move |site, scale, bits| {
            if site != StepSite::InverseLoop {
                return;
            }
            let ticks = {
                let mut l = l2.borrow_mut();
                l.ticks += 1;
                l.ticks
            };
            // decimal exponent of the iterate's leading digit, to within one:
            // digits ~ bits * log10(2); exponent = digits - 1 - scale
            let approx_digits = (bits as i128 * 30103) / 100000;
            let exponent = approx_digits - scale as i128;
            if ticks > budget {
                std::panic::panic_any(WatchdogTrip { ticks, reason: "tick budget exhausted", exponent });
            }
            if bits > 0 && (exponent < exp_lo || exponent > exp_hi) {
                std::panic::panic_any(WatchdogTrip { ticks, reason: "iterate left the progress window", exponent });
            }
        })));
        StepHookGuard { log }
    }
    pub fn ticks(&self) -> u64 {
        self.log.borrow().ticks
    }
}

impl Drop for StepHookGuard {
    fn drop(&mut self) {
        verif_hooks::set_step_hook(None);
    }
}
