pub mod sink;
