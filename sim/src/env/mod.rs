pub mod sink;
pub mod floatsite;
