pub mod sink;
pub mod floatsite;
pub mod peer;
pub mod pipe;
