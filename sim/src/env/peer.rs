//! Token-level serde peers: a simulator-owned data format. The `Deserializer` answers
//! `deserialize_any` with whatever token the plan says (each `visit_*`, each MapAccess behaviour);
//! the `Serializer` records what it is handed and can fail inside the `Display` it drives.

use crate::env::sink::{SimSink, SinkSpec};
use serde::de::{self, DeserializeSeed, IntoDeserializer, MapAccess, Visitor};
use serde::ser;
use serde::{Deserialize, Serialize};
use std::fmt::{self, Write as _};

pub const PRIVATE_NUMBER_KEY: &str = "$serde_json::private::Number";

#[derive(Clone, Debug, PartialEq)]
pub struct PeerError(pub String);

impl fmt::Display for PeerError {
    fn fmt(&self, f: &mut fmt::Formatter) -> fmt::Result {
        f.write_str(&self.0)
    }
}
impl std::error::Error for PeerError {}
impl de::Error for PeerError {
    fn custom<T: fmt::Display>(msg: T) -> Self {
        PeerError(format!("custom: {}", msg))
    }
}
impl ser::Error for PeerError {
    fn custom<T: fmt::Display>(msg: T) -> Self {
        PeerError(format!("custom: {}", msg))
    }
}

pub const PEER_KEY_ERROR: &str = "peer: next_key failed";
pub const PEER_VALUE_ERROR: &str = "peer: next_value failed";
pub const PEER_SINK_ERROR: &str = "peer: sink failed while formatting";

#[derive(Clone, Debug, PartialEq, Serialize, Deserialize)]
#[serde(tag = "t", content = "v", rename_all = "snake_case")]
pub enum Token {
    /// visit_str on a transient buffer
    Str(String),
    /// visit_borrowed_str
    BorrowedStr(String),
    /// visit_string
    String(String),
    I8(i8),
    I16(i16),
    I32(i32),
    I64(i64),
    /// decimal text of an i128
    I128(String),
    U8(u8),
    U16(u16),
    U32(u32),
    U64(u64),
    /// decimal text of a u128
    U128(String),
    F32 { bits: u32 },
    F64 { bits: u64 },
    /// {"$serde_json::private::Number": "<text>"} - how serde_json hands over arbitrary-precision numbers
    MapNumber(String),
    /// the private key, but the value is an integer token instead of a string
    MapNumberValueInt(i64),
    /// a map whose single key is something else
    MapWrongKey(String),
    MapEmpty,
    /// next_key returns Err
    MapKeyError,
    /// the private key, then next_value returns Err
    MapValueError,
    Bool(bool),
    Char(char),
    Bytes(Vec<u8>),
    Unit,
    None,
    Some(Box<Token>),
    Seq,
    Newtype(Box<Token>),
}

impl Token {
    pub fn kind(&self) -> &'static str {
        match self {
            Token::Str(_) => "str",
            Token::BorrowedStr(_) => "borrowed_str",
            Token::String(_) => "string",
            Token::I8(_) => "i8",
            Token::I16(_) => "i16",
            Token::I32(_) => "i32",
            Token::I64(_) => "i64",
            Token::I128(_) => "i128",
            Token::U8(_) => "u8",
            Token::U16(_) => "u16",
            Token::U32(_) => "u32",
            Token::U64(_) => "u64",
            Token::U128(_) => "u128",
            Token::F32 { .. } => "f32",
            Token::F64 { .. } => "f64",
            Token::MapNumber(_) => "map_number",
            Token::MapNumberValueInt(_) => "map_number_value_int",
            Token::MapWrongKey(_) => "map_wrong_key",
            Token::MapEmpty => "map_empty",
            Token::MapKeyError => "map_key_error",
            Token::MapValueError => "map_value_error",
            Token::Bool(_) => "bool",
            Token::Char(_) => "char",
            Token::Bytes(_) => "bytes",
            Token::Unit => "unit",
            Token::None => "none",
            Token::Some(_) => "some",
            Token::Seq => "seq",
            Token::Newtype(_) => "newtype",
        }
    }
}

pub struct TokenDe<'de> {
    pub token: &'de Token,
}

impl<'de> de::Deserializer<'de> for TokenDe<'de> {
    type Error = PeerError;

    fn deserialize_any<V: Visitor<'de>>(self, visitor: V) -> Result<V::Value, PeerError> {
        match self.token {
            Token::Str(s) => {
                let transient = s.clone();
                visitor.visit_str(&transient)
            }
            Token::BorrowedStr(s) => visitor.visit_borrowed_str(s.as_str()),
            Token::String(s) => visitor.visit_string(s.clone()),
            Token::I8(v) => visitor.visit_i8(*v),
            Token::I16(v) => visitor.visit_i16(*v),
            Token::I32(v) => visitor.visit_i32(*v),
            Token::I64(v) => visitor.visit_i64(*v),
            Token::I128(s) => visitor.visit_i128(s.parse::<i128>().map_err(|e| PeerError(format!("bad token: {}", e)))?),
            Token::U8(v) => visitor.visit_u8(*v),
            Token::U16(v) => visitor.visit_u16(*v),
            Token::U32(v) => visitor.visit_u32(*v),
            Token::U64(v) => visitor.visit_u64(*v),
            Token::U128(s) => visitor.visit_u128(s.parse::<u128>().map_err(|e| PeerError(format!("bad token: {}", e)))?),
            Token::F32 { bits } => visitor.visit_f32(f32::from_bits(*bits)),
            Token::F64 { bits } => visitor.visit_f64(f64::from_bits(*bits)),
            Token::MapNumber(_) | Token::MapNumberValueInt(_) | Token::MapWrongKey(_) | Token::MapEmpty | Token::MapKeyError | Token::MapValueError => {
                visitor.visit_map(MapStub { token: self.token, key_given: false })
            }
            Token::Bool(b) => visitor.visit_bool(*b),
            Token::Char(c) => visitor.visit_char(*c),
            Token::Bytes(b) => visitor.visit_bytes(b),
            Token::Unit => visitor.visit_unit(),
            Token::None => visitor.visit_none(),
            Token::Some(inner) => visitor.visit_some(TokenDe { token: inner }),
            Token::Seq => visitor.visit_seq(EmptySeq),
            Token::Newtype(inner) => visitor.visit_newtype_struct(TokenDe { token: inner }),
        }
    }

    fn deserialize_option<V: Visitor<'de>>(self, visitor: V) -> Result<V::Value, PeerError> {
        match self.token {
            Token::None | Token::Unit => visitor.visit_none(),
            Token::Some(inner) => visitor.visit_some(TokenDe { token: inner }),
            _ => visitor.visit_some(self),
        }
    }

    serde::forward_to_deserialize_any! {
        bool i8 i16 i32 i64 i128 u8 u16 u32 u64 u128 f32 f64 char str string
        bytes byte_buf unit unit_struct newtype_struct seq tuple
        tuple_struct map struct enum identifier ignored_any
    }
}

struct EmptySeq;
impl<'de> de::SeqAccess<'de> for EmptySeq {
    type Error = PeerError;
    fn next_element_seed<T: DeserializeSeed<'de>>(&mut self, _seed: T) -> Result<Option<T::Value>, PeerError> {
        Ok(None)
    }
}

struct MapStub<'de> {
    token: &'de Token,
    key_given: bool,
}

impl<'de> MapAccess<'de> for MapStub<'de> {
    type Error = PeerError;

    fn next_key_seed<K: DeserializeSeed<'de>>(&mut self, seed: K) -> Result<Option<K::Value>, PeerError> {
        if self.key_given {
            return Ok(None);
        }
        self.key_given = true;
        match self.token {
            Token::MapNumber(_) | Token::MapNumberValueInt(_) | Token::MapValueError => seed.deserialize(de::value::BorrowedStrDeserializer::new(PRIVATE_NUMBER_KEY)).map(Some),
            Token::MapWrongKey(k) => seed.deserialize(de::value::BorrowedStrDeserializer::new(k.as_str())).map(Some),
            Token::MapEmpty => Ok(None),
            Token::MapKeyError => Err(PeerError(PEER_KEY_ERROR.into())),
            _ => Ok(None),
        }
    }

    fn next_value_seed<V: DeserializeSeed<'de>>(&mut self, seed: V) -> Result<V::Value, PeerError> {
        match self.token {
            Token::MapNumber(s) => seed.deserialize(s.clone().into_deserializer()),
            Token::MapNumberValueInt(v) => seed.deserialize((*v).into_deserializer()),
            Token::MapWrongKey(_) => seed.deserialize("1".to_string().into_deserializer()),
            Token::MapValueError => Err(PeerError(PEER_VALUE_ERROR.into())),
            _ => Err(PeerError("peer: next_value without a key".into())),
        }
    }
}

// ---------------------------------------------------------------- serializer peer

#[derive(Default, Debug, Clone)]
pub struct SerRecord {
    /// text received through collect_str (the peer formats the Display itself, into its own sink)
    pub collected: Option<String>,
    /// text received through serialize_str (a Serialize impl that pre-formats)
    pub serialized_str: Option<String>,
    pub sink_refusals: usize,
    pub sink_calls: usize,
    pub other_calls: Vec<&'static str>,
    /// serialize_none / serialize_unit received (a format that distinguishes them)
    pub got_none: usize,
    pub got_unit: usize,
    /// serialize_struct(name, ..) with one string field: (struct name, field key, field text)
    pub structs: Vec<(String, String, Option<String>)>,
}

pub struct RecSerializer<'a> {
    pub rec: &'a mut SerRecord,
    pub human_readable: bool,
    pub sink: SinkSpec,
}

macro_rules! unexpected {
    ($self:ident, $name:literal) => {{
        $self.rec.other_calls.push($name);
        Err(PeerError(concat!("peer: unexpected ", $name).into()))
    }};
}

impl<'a> ser::Serializer for RecSerializer<'a> {
    type Ok = ();
    type Error = PeerError;
    type SerializeSeq = ser::Impossible<(), PeerError>;
    type SerializeTuple = ser::Impossible<(), PeerError>;
    type SerializeTupleStruct = ser::Impossible<(), PeerError>;
    type SerializeTupleVariant = ser::Impossible<(), PeerError>;
    type SerializeMap = ser::Impossible<(), PeerError>;
    type SerializeStruct = StructRec<'a>;
    type SerializeStructVariant = ser::Impossible<(), PeerError>;

    fn is_human_readable(&self) -> bool {
        self.human_readable
    }

    fn collect_str<T: fmt::Display + ?Sized>(self, value: &T) -> Result<(), PeerError> {
        let mut sink = SimSink::new(self.sink.clone());
        let r = write!(sink, "{}", value);
        self.rec.sink_refusals = sink.refusals;
        self.rec.sink_calls = sink.calls();
        match r {
            Ok(()) => {
                self.rec.collected = Some(sink.buf);
                Ok(())
            }
            Err(_) => Err(PeerError(PEER_SINK_ERROR.into())),
        }
    }
    fn serialize_str(self, v: &str) -> Result<(), PeerError> {
        self.rec.serialized_str = Some(v.to_string());
        Ok(())
    }
    fn serialize_bool(self, _: bool) -> Result<(), PeerError> {
        unexpected!(self, "serialize_bool")
    }
    fn serialize_i8(self, _: i8) -> Result<(), PeerError> {
        unexpected!(self, "serialize_i8")
    }
    fn serialize_i16(self, _: i16) -> Result<(), PeerError> {
        unexpected!(self, "serialize_i16")
    }
    fn serialize_i32(self, _: i32) -> Result<(), PeerError> {
        unexpected!(self, "serialize_i32")
    }
    fn serialize_i64(self, _: i64) -> Result<(), PeerError> {
        unexpected!(self, "serialize_i64")
    }
    fn serialize_u8(self, _: u8) -> Result<(), PeerError> {
        unexpected!(self, "serialize_u8")
    }
    fn serialize_u16(self, _: u16) -> Result<(), PeerError> {
        unexpected!(self, "serialize_u16")
    }
    fn serialize_u32(self, _: u32) -> Result<(), PeerError> {
        unexpected!(self, "serialize_u32")
    }
    fn serialize_u64(self, _: u64) -> Result<(), PeerError> {
        unexpected!(self, "serialize_u64")
    }
    fn serialize_f32(self, _: f32) -> Result<(), PeerError> {
        unexpected!(self, "serialize_f32")
    }
    fn serialize_f64(self, _: f64) -> Result<(), PeerError> {
        unexpected!(self, "serialize_f64")
    }
    fn serialize_char(self, _: char) -> Result<(), PeerError> {
        unexpected!(self, "serialize_char")
    }
    fn serialize_bytes(self, _: &[u8]) -> Result<(), PeerError> {
        unexpected!(self, "serialize_bytes")
    }
    fn serialize_none(self) -> Result<(), PeerError> {
        self.rec.got_none += 1;
        Ok(())
    }
    fn serialize_some<T: ?Sized + Serialize>(self, _: &T) -> Result<(), PeerError> {
        unexpected!(self, "serialize_some")
    }
    fn serialize_unit(self) -> Result<(), PeerError> {
        self.rec.got_unit += 1;
        Ok(())
    }
    fn serialize_unit_struct(self, _: &'static str) -> Result<(), PeerError> {
        unexpected!(self, "serialize_unit_struct")
    }
    fn serialize_unit_variant(self, _: &'static str, _: u32, _: &'static str) -> Result<(), PeerError> {
        unexpected!(self, "serialize_unit_variant")
    }
    fn serialize_newtype_struct<T: ?Sized + Serialize>(self, _: &'static str, _: &T) -> Result<(), PeerError> {
        unexpected!(self, "serialize_newtype_struct")
    }
    fn serialize_newtype_variant<T: ?Sized + Serialize>(self, _: &'static str, _: u32, _: &'static str, _: &T) -> Result<(), PeerError> {
        unexpected!(self, "serialize_newtype_variant")
    }
    fn serialize_seq(self, _: Option<usize>) -> Result<Self::SerializeSeq, PeerError> {
        unexpected!(self, "serialize_seq")
    }
    fn serialize_tuple(self, _: usize) -> Result<Self::SerializeTuple, PeerError> {
        unexpected!(self, "serialize_tuple")
    }
    fn serialize_tuple_struct(self, _: &'static str, _: usize) -> Result<Self::SerializeTupleStruct, PeerError> {
        unexpected!(self, "serialize_tuple_struct")
    }
    fn serialize_tuple_variant(self, _: &'static str, _: u32, _: &'static str, _: usize) -> Result<Self::SerializeTupleVariant, PeerError> {
        unexpected!(self, "serialize_tuple_variant")
    }
    fn serialize_map(self, _: Option<usize>) -> Result<Self::SerializeMap, PeerError> {
        unexpected!(self, "serialize_map")
    }
    fn serialize_struct(self, name: &'static str, _: usize) -> Result<Self::SerializeStruct, PeerError> {
        self.rec.structs.push((name.to_string(), String::new(), None));
        Ok(StructRec { rec: self.rec })
    }
    fn serialize_struct_variant(self, _: &'static str, _: u32, _: &'static str, _: usize) -> Result<Self::SerializeStructVariant, PeerError> {
        unexpected!(self, "serialize_struct_variant")
    }
}

/// Records the single string field of a struct (how serde_json's arbitrary-precision Number serializes itself)
pub struct StructRec<'a> {
    rec: &'a mut SerRecord,
}

impl<'a> ser::SerializeStruct for StructRec<'a> {
    type Ok = ();
    type Error = PeerError;
    fn serialize_field<T: ?Sized + Serialize>(&mut self, key: &'static str, value: &T) -> Result<(), PeerError> {
        let mut inner = SerRecord::default();
        value.serialize(RecSerializer { rec: &mut inner, human_readable: true, sink: SinkSpec::Unbounded })?;
        if let Some(last) = self.rec.structs.last_mut() {
            last.1 = key.to_string();
            last.2 = inner.serialized_str.or(inner.collected);
        }
        Ok(())
    }
    fn end(self) -> Result<(), PeerError> {
        Ok(())
    }
}
