//! Simulated byte transports: the `io::Write` under `serde_json::to_writer` and the `io::Read`
//! under `serde_json::from_reader`, each executing an explicit fault plan.

use serde::{Deserialize, Serialize};
use std::io;

#[derive(Clone, Debug, Default, PartialEq, Eq, Serialize, Deserialize)]
pub struct IoPlan {
    /// cyclic list of the most bytes one call may move (empty = unlimited); entries are >= 1
    #[serde(default)]
    pub max_chunk: Vec<usize>,
    /// call indices (0-based, counting every call) that return ErrorKind::Interrupted without moving data
    #[serde(default)]
    pub interrupts: Vec<u64>,
    /// byte offset at which the transport fails hard (ENOSPC / EPIPE / EIO): bytes before it are moved, then Err
    #[serde(default)]
    pub hard_error_at: Option<u64>,
    /// reader only: byte offset at which the stream ends (torn frame)
    #[serde(default)]
    pub eof_at: Option<u64>,
    /// writer only: flush() fails
    #[serde(default)]
    pub flush_error: bool,
    /// writer only: the hard error fires once (the call that reaches the offset fails), later calls succeed again
    #[serde(default)]
    pub hard_error_transient: bool,
}

impl IoPlan {
    pub fn is_clean(&self) -> bool {
        self.max_chunk.is_empty() && self.interrupts.is_empty() && self.hard_error_at.is_none() && self.eof_at.is_none() && !self.flush_error
    }
    /// true if no byte is lost or refused (short transfers and Interrupted are benign)
    pub fn is_benign(&self) -> bool {
        self.hard_error_at.is_none() && self.eof_at.is_none() && !self.flush_error
    }
}

#[derive(Default, Debug, Clone)]
pub struct IoStats {
    pub calls: u64,
    pub short: u64,
    pub interrupted: u64,
    pub hard_errors: u64,
    pub eofs: u64,
    pub flush_errors: u64,
}

pub struct SimWriter {
    pub plan: IoPlan,
    pub data: Vec<u8>,
    pub stats: IoStats,
}

impl SimWriter {
    pub fn new(plan: IoPlan) -> SimWriter {
        SimWriter { plan, data: vec![], stats: IoStats::default() }
    }
}

impl io::Write for SimWriter {
    fn write(&mut self, buf: &[u8]) -> io::Result<usize> {
        let idx = self.stats.calls;
        self.stats.calls += 1;
        if self.plan.interrupts.contains(&idx) {
            self.stats.interrupted += 1;
            return Err(io::Error::new(io::ErrorKind::Interrupted, "simulated EINTR"));
        }
        if buf.is_empty() {
            return Ok(0);
        }
        let mut n = buf.len();
        if !self.plan.max_chunk.is_empty() {
            n = n.min(self.plan.max_chunk[(idx as usize) % self.plan.max_chunk.len()].max(1));
        }
        if let Some(k) = self.plan.hard_error_at {
            let spent = self.plan.hard_error_transient && self.stats.hard_errors > 0;
            if !spent {
                let room = k.saturating_sub(self.data.len() as u64) as usize;
                if room == 0 {
                    self.stats.hard_errors += 1;
                    return Err(io::Error::new(io::ErrorKind::Other, "simulated ENOSPC"));
                }
                n = n.min(room);
            }
        }
        if n < buf.len() {
            self.stats.short += 1;
        }
        self.data.extend_from_slice(&buf[..n]);
        Ok(n)
    }
    fn flush(&mut self) -> io::Result<()> {
        if self.plan.flush_error {
            self.stats.flush_errors += 1;
            return Err(io::Error::new(io::ErrorKind::Other, "simulated flush failure"));
        }
        Ok(())
    }
}

pub struct SimReader {
    pub plan: IoPlan,
    pub data: Vec<u8>,
    pub pos: usize,
    pub stats: IoStats,
}

impl SimReader {
    pub fn new(plan: IoPlan, data: Vec<u8>) -> SimReader {
        SimReader { plan, data, pos: 0, stats: IoStats::default() }
    }
}

impl io::Read for SimReader {
    fn read(&mut self, buf: &mut [u8]) -> io::Result<usize> {
        let idx = self.stats.calls;
        self.stats.calls += 1;
        if self.plan.interrupts.contains(&idx) {
            self.stats.interrupted += 1;
            return Err(io::Error::new(io::ErrorKind::Interrupted, "simulated EINTR"));
        }
        if buf.is_empty() {
            return Ok(0);
        }
        let mut end = self.data.len();
        if let Some(k) = self.plan.eof_at {
            end = end.min(k as usize);
        }
        if let Some(k) = self.plan.hard_error_at {
            // whichever of (end of stream, hard error) comes first wins
            if (k as usize) < end {
                if self.pos as u64 >= k {
                    self.stats.hard_errors += 1;
                    return Err(io::Error::new(io::ErrorKind::Other, "simulated EIO"));
                }
                end = k as usize;
            }
        }
        if self.pos >= end {
            if self.pos < self.data.len() {
                self.stats.eofs += 1;
            }
            return Ok(0);
        }
        let mut n = buf.len().min(end - self.pos);
        if !self.plan.max_chunk.is_empty() {
            let m = self.plan.max_chunk[(idx as usize) % self.plan.max_chunk.len()].max(1);
            if m < n {
                n = m;
                self.stats.short += 1;
            }
        }
        buf[..n].copy_from_slice(&self.data[self.pos..self.pos + n]);
        self.pos += n;
        Ok(n)
    }
}
