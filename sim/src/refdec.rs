//! Exact reference decimal used by every oracle. No floating point in here.
//!
//! `RefDec { int, exp }` is the value `int * 10^exp`. Powers of ten come from
//! num-bigint's `pow`, never from the crate under test; the numeral parser
//! builds its integer by 18-digit multiply-and-add, not with any routine of
//! the crate under test.

use bigdecimal::num_bigint::{BigInt, BigUint, Sign};
use bigdecimal::BigDecimal;
use serde::{Deserialize, Serialize};
use std::cmp::Ordering;

/// number of ways a value can travel before being observed (see `Dec::to_bd_via`)
pub const TRANSPORTS: u8 = 11;

/// A decimal as it appears in a trace / replay file: sign+digits as text, and the scale.
#[derive(Clone, Debug, PartialEq, Eq, Serialize, Deserialize, Hash)]
pub struct Dec {
    /// optional '-' followed by decimal digits without leading zeros ("0" for zero)
    pub int: String,
    pub scale: i64,
}

impl Dec {
    pub fn new(neg: bool, digits: &str, scale: i64) -> Dec {
        let d = digits.trim_start_matches('0');
        if d.is_empty() {
            return Dec { int: "0".into(), scale };
        }
        Dec { int: format!("{}{}", if neg { "-" } else { "" }, d), scale }
    }
    pub fn is_neg(&self) -> bool {
        self.int.starts_with('-')
    }
    pub fn digits(&self) -> &str {
        self.int.trim_start_matches('-')
    }
    pub fn is_zero(&self) -> bool {
        self.int == "0"
    }
    pub fn ndigits(&self) -> usize {
        self.digits().len()
    }
    pub fn bigint(&self) -> BigInt {
        let mag = biguint_from_digits(self.digits().as_bytes());
        let sign = if self.is_zero() {
            Sign::NoSign
        } else if self.is_neg() {
            Sign::Minus
        } else {
            Sign::Plus
        };
        BigInt::from_biguint(sign, mag)
    }
    /// The value under test (constructed without going through the crate's parser)
    pub fn to_bd(&self) -> BigDecimal {
        BigDecimal::new(self.bigint(), self.scale)
    }
    pub fn to_ref(&self) -> RefDec {
        RefDec { int: self.bigint(), exp: -(self.scale as i128) }
    }
    /// The value under test after travelling through an identity-like std-trait operation (a defect in
    /// Clone / clone_from / Neg / to_owned would otherwise never be observed by a harness that builds every
    /// value freshly). 0 = fresh.
    pub fn to_bd_via(&self, transport: u8) -> BigDecimal {
        let v = self.to_bd();
        match transport % TRANSPORTS {
            0 => v,
            1 => v.clone(),
            2 => {
                // into an existing value of a different scale and sign
                let mut slot = BigDecimal::new(BigInt::from(-70007), 3);
                slot.clone_from(&v);
                slot
            }
            3 => {
                let mut slot = BigDecimal::new(BigInt::from(5), -40);
                v.to_ref().clone_into(&mut slot);
                slot
            }
            4 => v.to_ref().to_owned(),
            5 => -(-v),
            6 => {
                let mut slots = vec![BigDecimal::new(BigInt::from(1), 1), BigDecimal::new(BigInt::from(2), 200)];
                slots.clone_from_slice(&[v.clone(), v]);
                slots.pop().unwrap()
            }
            7 => {
                // into a destination that is equal in value but has another scale (a copy must still be exact)
                let mut slot = BigDecimal::new(self.bigint() * BigInt::from(100), self.scale.saturating_add(2));
                v.to_ref().clone_into(&mut slot);
                slot
            }
            8 => {
                // into a destination with the same digits and the opposite sign
                let mut slot = BigDecimal::new(-self.bigint(), self.scale);
                v.to_ref().clone_into(&mut slot);
                slot
            }
            9 => -&(-&v),
            _ => {
                // through the num-traits Signed::abs implementation (a separate one from the inherent abs)
                use bigdecimal::num_traits::Signed;
                if self.is_neg() {
                    -Signed::abs(&v)
                } else {
                    Signed::abs(&v)
                }
            }
        }
    }
    pub fn from_bd(d: &BigDecimal) -> Dec {
        let (i, s) = d.as_bigint_and_exponent();
        Dec { int: i.to_string(), scale: s }
    }
    pub fn negated(&self) -> Dec {
        if self.is_zero() {
            self.clone()
        } else if self.is_neg() {
            Dec { int: self.digits().to_string(), scale: self.scale }
        } else {
            Dec { int: format!("-{}", self.int), scale: self.scale }
        }
    }
    /// Decimal exponent of the leading digit (value = d.ddd * 10^lead_exp); 0 for zero
    pub fn lead_exp(&self) -> i128 {
        self.ndigits() as i128 - 1 - self.scale as i128
    }
}

/// Build a BigUint from ASCII decimal digits, 18 at a time.
pub fn biguint_from_digits(d: &[u8]) -> BigUint {
    let mut acc = BigUint::from(0u8);
    let ten18 = BigUint::from(1_000_000_000_000_000_000u64);
    let first = d.len() % 18;
    let mut i = 0;
    if first > 0 {
        acc = BigUint::from(chunk_u64(&d[..first]));
        i = first;
    }
    while i < d.len() {
        acc = acc * &ten18 + BigUint::from(chunk_u64(&d[i..i + 18]));
        i += 18;
    }
    acc
}

fn chunk_u64(d: &[u8]) -> u64 {
    let mut v = 0u64;
    for &c in d {
        debug_assert!(c.is_ascii_digit());
        v = v * 10 + (c - b'0') as u64;
    }
    v
}

pub fn pow10(n: u64) -> BigUint {
    bigdecimal::num_traits::Pow::pow(BigUint::from(10u8), n)
}
pub fn pow5(n: u64) -> BigUint {
    bigdecimal::num_traits::Pow::pow(BigUint::from(5u8), n)
}
pub fn pow2(n: u64) -> BigUint {
    BigUint::from(1u8) << (n as usize)
}

/// value = int * 10^exp
#[derive(Clone, Debug)]
pub struct RefDec {
    pub int: BigInt,
    pub exp: i128,
}

impl RefDec {
    pub fn zero() -> RefDec {
        RefDec { int: BigInt::from(0), exp: 0 }
    }
    pub fn one() -> RefDec {
        RefDec { int: BigInt::from(1), exp: 0 }
    }
    pub fn from_bd(d: &BigDecimal) -> RefDec {
        let (i, s) = d.as_bigint_and_exponent();
        RefDec { int: i, exp: -(s as i128) }
    }
    pub fn is_zero(&self) -> bool {
        self.int.sign() == Sign::NoSign
    }
    pub fn sign(&self) -> Sign {
        self.int.sign()
    }
    pub fn neg(&self) -> RefDec {
        RefDec { int: -self.int.clone(), exp: self.exp }
    }
    pub fn abs(&self) -> RefDec {
        RefDec { int: BigInt::from_biguint(if self.is_zero() { Sign::NoSign } else { Sign::Plus }, self.int.magnitude().clone()), exp: self.exp }
    }
    pub fn mul(&self, o: &RefDec) -> RefDec {
        RefDec { int: &self.int * &o.int, exp: self.exp + o.exp }
    }
    /// Trailing zeros stripped from `int`; zero becomes (0, 0). Two RefDecs are equal in value
    /// iff their normal forms are identical - works for exponents of any size.
    pub fn normal(&self) -> RefDec {
        if self.is_zero() {
            return RefDec::zero();
        }
        let s = self.int.magnitude().to_str_radix(10);
        let t = s.trim_end_matches('0');
        let k = s.len() - t.len();
        if k == 0 {
            return self.clone();
        }
        let mag = biguint_from_digits(t.as_bytes());
        RefDec { int: BigInt::from_biguint(self.int.sign(), mag), exp: self.exp + k as i128 }
    }
    pub fn value_eq(&self, o: &RefDec) -> bool {
        let a = self.normal();
        let b = o.normal();
        a.exp == b.exp && a.int == b.int
    }
    /// number of decimal digits of |int| (1 for zero)
    pub fn ndigits(&self) -> u64 {
        self.int.magnitude().to_str_radix(10).len() as u64
    }
    /// exponent of the leading digit: |value| in [10^e, 10^(e+1))
    pub fn lead_exp(&self) -> i128 {
        self.ndigits() as i128 - 1 + self.exp
    }
    /// Bring both to a common exponent (the smaller). Panics (harness error) if the gap is absurd.
    fn aligned(&self, o: &RefDec) -> (BigInt, BigInt, i128) {
        let e = self.exp.min(o.exp);
        let da = (self.exp - e) as u64;
        let db = (o.exp - e) as u64;
        assert!(da < 2_000_000 && db < 2_000_000, "RefDec alignment gap too large: {} {}", da, db);
        let a = if da == 0 { self.int.clone() } else { &self.int * BigInt::from(pow10(da)) };
        let b = if db == 0 { o.int.clone() } else { &o.int * BigInt::from(pow10(db)) };
        (a, b, e)
    }
    pub fn sub(&self, o: &RefDec) -> RefDec {
        if o.is_zero() {
            return self.clone();
        }
        if self.is_zero() {
            return o.neg();
        }
        let (a, b, e) = self.aligned(o);
        RefDec { int: a - b, exp: e }
    }
    pub fn add(&self, o: &RefDec) -> RefDec {
        self.sub(&o.neg())
    }
    pub fn cmp(&self, o: &RefDec) -> Ordering {
        // cheap paths first so that huge exponent gaps never reach `aligned`
        let (sa, sb) = (sign_i(self), sign_i(o));
        if sa != sb {
            return sa.cmp(&sb);
        }
        if sa == 0 {
            return Ordering::Equal;
        }
        let (la, lb) = (self.lead_exp(), o.lead_exp());
        if la != lb {
            let ord = la.cmp(&lb);
            return if sa > 0 { ord } else { ord.reverse() };
        }
        let (a, b, _) = self.aligned(o);
        a.cmp(&b)
    }
    pub fn lt(&self, o: &RefDec) -> bool {
        self.cmp(o) == Ordering::Less
    }
    pub fn le(&self, o: &RefDec) -> bool {
        self.cmp(o) != Ordering::Greater
    }
    /// 10^e
    pub fn pow10(e: i128) -> RefDec {
        RefDec { int: BigInt::from(1), exp: e }
    }
    /// m * 2^e, exactly
    pub fn from_m2e(neg: bool, m: u64, e: i64) -> RefDec {
        if m == 0 {
            return RefDec::zero();
        }
        let sign = if neg { Sign::Minus } else { Sign::Plus };
        if e >= 0 {
            RefDec { int: BigInt::from_biguint(sign, BigUint::from(m) << (e as usize)), exp: 0 }
        } else {
            // 2^e = 5^-e * 10^e
            RefDec { int: BigInt::from_biguint(sign, BigUint::from(m) * pow5((-e) as u64)), exp: e as i128 }
        }
    }
    /// exact value of the finite f64 with these bits; None for NaN / infinities
    pub fn from_f64_bits(bits: u64) -> Option<RefDec> {
        let neg = bits >> 63 == 1;
        let ef = ((bits >> 52) & 0x7FF) as i64;
        let frac = bits & ((1u64 << 52) - 1);
        match ef {
            0x7FF => None,
            0 => Some(RefDec::from_m2e(neg, frac, -1074)),
            _ => Some(RefDec::from_m2e(neg, frac | (1u64 << 52), ef - 1075)),
        }
    }
    pub fn from_f32_bits(bits: u32) -> Option<RefDec> {
        let neg = bits >> 31 == 1;
        let ef = ((bits >> 23) & 0xFF) as i64;
        let frac = (bits & ((1u32 << 23) - 1)) as u64;
        match ef {
            0xFF => None,
            0 => Some(RefDec::from_m2e(neg, frac, -149)),
            _ => Some(RefDec::from_m2e(neg, frac | (1u64 << 23), ef - 150)),
        }
    }
    pub fn describe(&self) -> String {
        let s = self.int.to_string();
        if s.len() > 80 {
            format!("{}..({} digits)..{}e{}", &s[..30], s.len(), &s[s.len() - 20..], self.exp)
        } else {
            format!("{}e{}", s, self.exp)
        }
    }
}

fn sign_i(r: &RefDec) -> i8 {
    match r.int.sign() {
        Sign::Minus => -1,
        Sign::NoSign => 0,
        Sign::Plus => 1,
    }
}

/// What a numeral denotes: sign, integer made of all its digits, and scale = fraction digits - exponent.
#[derive(Clone, Debug, PartialEq, Eq)]
pub struct Numeral {
    pub int: BigInt,
    pub scale: i128,
}

/// Reference parser for the numerals the crate prints and JSON allows:
/// `[+-]? digits [ . digits* ]? ( [eE] [+-]? digits )?` with at least one digit before the exponent.
/// (".5" and "5." are accepted as the crate's parser accepts them; callers that need strict JSON
/// check the grammar separately.)
pub fn parse_numeral(s: &str) -> Option<Numeral> {
    let b = s.as_bytes();
    let mut i = 0;
    let mut neg = false;
    if i < b.len() && (b[i] == b'+' || b[i] == b'-') {
        neg = b[i] == b'-';
        i += 1;
    }
    let mut digits: Vec<u8> = Vec::with_capacity(b.len());
    let start = i;
    while i < b.len() && b[i].is_ascii_digit() {
        digits.push(b[i]);
        i += 1;
    }
    let int_digits = i - start;
    let mut frac_digits = 0usize;
    if i < b.len() && b[i] == b'.' {
        i += 1;
        while i < b.len() && b[i].is_ascii_digit() {
            digits.push(b[i]);
            frac_digits += 1;
            i += 1;
        }
    }
    if int_digits + frac_digits == 0 {
        return None;
    }
    let mut exp: i128 = 0;
    if i < b.len() && (b[i] == b'e' || b[i] == b'E') {
        i += 1;
        let mut eneg = false;
        if i < b.len() && (b[i] == b'+' || b[i] == b'-') {
            eneg = b[i] == b'-';
            i += 1;
        }
        let es = i;
        while i < b.len() && b[i].is_ascii_digit() {
            if exp < i128::MAX / 100 {
                exp = exp * 10 + (b[i] - b'0') as i128;
            }
            i += 1;
        }
        if i == es {
            return None;
        }
        if eneg {
            exp = -exp;
        }
    }
    if i != b.len() {
        return None;
    }
    let mag = biguint_from_digits(&digits);
    let zero = mag == BigUint::from(0u8);
    let sign = if zero {
        Sign::NoSign
    } else if neg {
        Sign::Minus
    } else {
        Sign::Plus
    };
    Some(Numeral { int: BigInt::from_biguint(sign, mag), scale: frac_digits as i128 - exp })
}

/// A deliberately PERMISSIVE numeral shape: `[+-]? [0-9_]* ( . [0-9_]* )? ( [eE] [+-]? [0-9]+ )?` with at least one
/// digit in the mantissa. It is a superset of every reading of the crate's documented grammar (sign, digits with
/// '_' separators, at most one '.', optional e/E exponent with optional sign); a string that does not even have
/// this shape is "non-numeric input" and must be reported as an error.
pub fn has_numeral_shape(s: &str) -> bool {
    let b = s.as_bytes();
    let mut i = 0;
    if i < b.len() && (b[i] == b'+' || b[i] == b'-') {
        i += 1;
    }
    let mut digits = 0;
    while i < b.len() && (b[i].is_ascii_digit() || b[i] == b'_') {
        digits += b[i].is_ascii_digit() as usize;
        i += 1;
    }
    if i < b.len() && b[i] == b'.' {
        i += 1;
        while i < b.len() && (b[i].is_ascii_digit() || b[i] == b'_') {
            digits += b[i].is_ascii_digit() as usize;
            i += 1;
        }
    }
    if digits == 0 {
        return false;
    }
    if i < b.len() && (b[i] == b'e' || b[i] == b'E') {
        i += 1;
        if i < b.len() && (b[i] == b'+' || b[i] == b'-') {
            i += 1;
        }
        let s0 = i;
        while i < b.len() && b[i].is_ascii_digit() {
            i += 1;
        }
        if i == s0 {
            return false;
        }
    }
    i == b.len()
}

/// Reference reading of any string that has the permissive numeral shape: '_' separators in the mantissa are
/// ignored, then it is read as a numeral (sign, digits, optional fraction, optional exponent).
pub fn parse_numeral_lenient(s: &str) -> Option<Numeral> {
    if !has_numeral_shape(s) {
        return None;
    }
    let (mant, exp) = match s.find(|c| c == 'e' || c == 'E') {
        Some(i) => (&s[..i], &s[i..]),
        None => (s, ""),
    };
    let cleaned: String = mant.chars().filter(|&c| c != '_').collect::<String>() + exp;
    parse_numeral(&cleaned)
}

/// Strict JSON number grammar: -? (0 | [1-9][0-9]*) (. [0-9]+)? ([eE] [+-]? [0-9]+)?
pub fn is_json_number(s: &str) -> bool {
    let b = s.as_bytes();
    let mut i = 0;
    if i < b.len() && b[i] == b'-' {
        i += 1;
    }
    if i >= b.len() {
        return false;
    }
    if b[i] == b'0' {
        i += 1;
    } else if b[i].is_ascii_digit() {
        while i < b.len() && b[i].is_ascii_digit() {
            i += 1;
        }
    } else {
        return false;
    }
    if i < b.len() && b[i] == b'.' {
        i += 1;
        let s0 = i;
        while i < b.len() && b[i].is_ascii_digit() {
            i += 1;
        }
        if i == s0 {
            return false;
        }
    }
    if i < b.len() && (b[i] == b'e' || b[i] == b'E') {
        i += 1;
        if i < b.len() && (b[i] == b'+' || b[i] == b'-') {
            i += 1;
        }
        let s0 = i;
        while i < b.len() && b[i].is_ascii_digit() {
            i += 1;
        }
        if i == s0 {
            return false;
        }
    }
    i == b.len()
}

#[cfg(test)]
mod tests {
    use super::*;
    #[test]
    fn numerals() {
        let n = parse_numeral("-12.340e-2").unwrap();
        assert_eq!(n.int, BigInt::from(-12340));
        assert_eq!(n.scale, 5);
        assert!(parse_numeral("e5").is_none());
        assert!(parse_numeral("1e").is_none());
        assert!(parse_numeral("1_0").is_none());
        assert!(is_json_number("-0.10e+5"));
        assert!(!is_json_number("01"));
        assert!(!is_json_number("1."));
        assert!(!is_json_number(".5"));
        assert!(!is_json_number("+1"));
    }
    #[test]
    fn floats() {
        let r = RefDec::from_f64_bits(0.1f64.to_bits()).unwrap();
        assert_eq!(r.describe(), "1000000000000000055511151231257827021181583404541015625e-55");
        let one = RefDec::from_f64_bits(1.0f64.to_bits()).unwrap();
        assert!(one.value_eq(&RefDec::one()));
        let r = RefDec::from_f32_bits(1u32).unwrap();
        assert_eq!(r.exp, -149);
    }
    #[test]
    fn ordering() {
        let a = Dec::new(false, "100", 2).to_ref();
        let b = Dec::new(false, "1", 0).to_ref();
        assert!(a.value_eq(&b));
        assert_eq!(a.cmp(&b), Ordering::Equal);
        let c = Dec::new(true, "1", -1000000000000).to_ref();
        assert!(c.lt(&b));
    }
}
