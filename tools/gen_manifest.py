#!/usr/bin/env python3
"""Regenerates /verif/MANIFEST.json (kept as a script so the file stays consistent)."""
import json, os, sys
HERE = os.path.dirname(os.path.dirname(os.path.abspath(__file__)))
na = {
"C01":"pure function of two values; no sink, peer, clock, thread or fault anywhere on the path (DESIGN.md §9)",
"C02":"pure function; the debug/release difference is a compile-time setting, not a run-time fault a simulator can inject (DESIGN.md §9)",
"C03":"Hasher is infallible and is fed bytes that do not depend on it; HashMap's random keys cannot change the truth of the property (DESIGN.md §9)",
"C05":"pure function of a &str/&[u8] already complete in memory; there is no reader, so no short read, EOF or error to inject (DESIGN.md §9)",
"C06":"pure function of (value, scale, mode); no schedule, clock, fault or interleaving (DESIGN.md §9)",
"C07":"pure function of (value, precision, mode); no schedule, clock, fault or interleaving (DESIGN.md §9)",
"C08":"pure function; the zero-divisor panic is a function of the operands (DESIGN.md §9)",
"C09":"pure function (DESIGN.md §9)",
"C10":"pure integer algorithm; its one float use (/ 4.0) is an exact conversion, no nondeterministic intrinsic (DESIGN.md §9)",
"C11":"pure integer algorithm (DESIGN.md §9)",
"C13":"pure function; uses no float intrinsic, and termination is not part of the statement (DESIGN.md §9)",
"C15":"pure function (DESIGN.md §9)",
"C16":"the sink is reached through one Formatter::pad_integral call on a finished buffer: no bigdecimal code lies between the computed text and the sink, so sink faults would exercise core::fmt only (DESIGN.md §9)",
"C18":"pure function (DESIGN.md §9)",
"C19":"a straight-line program of exact operations is an input; its result is a pure function of it - no schedule, fault or crash point to search over; model-based input generation is a different technique (DESIGN.md §9)",
"C20":"compile-time constants frozen by build.rs; deciding it needs a build-configuration matrix with differential testing, a different technique (DESIGN.md §9)",
}
checks = {
"C04": dict(cat="fault_enumeration", ref="DESIGN.md §5",
  text="For every generated decimal each of the 13 render operations is executed against a fault-free sink (text re-parsed by the crate's parser and by an independent numeral parser, compared exactly for value and for digits+scale) and against the complete enumerated set of sink faults for that operation (every call index failing transiently or permanently, every interesting fixed capacity, partial acceptance). Inputs are sampled (plus the full length x scale grid the property names); sink faults per input are exhaustive.",
  note="trusts num-bigint arithmetic, core::fmt, and the harness's own numeral parser; sinks are assumed to refuse whole chunks or accept a stated prefix; default build configuration only (RUST_BIGDECIMAL_* unset); plain notation exercised up to |scale| 100000",
  tech="deterministic simulation with fault injection: simulated fmt::Write sinks with enumerated fault plans, exact round-trip oracle"),
"C12": dict(cat="exploration", ref="DESIGN.md §6",
  text="Seeded search over (x, precision, mode, spelling of 1/x) x the admissible results of the platform's f64::exp2 at the initial-guess seam, each execution under a simulated step clock with a progress window (bounded liveness instead of a wall-clock timeout). Exact oracles: sign, |r*x-1| < one unit in digit p, exactness for terminating reciprocals, negation under the mirrored mode, 1/x == inverse(). A clean batch is evidence, not proof.",
  note="admissible exp2 set: +-16 ULP (normal results), +-1 ULP or flush-to-zero (subnormal results), 2^-1074 for the tie exp2(-1075); termination = at most 14+ceil(log2(p+2)) Newton iterations with the iterate's exponent inside e0+-(64+2p) (+1200 iterations / +700 decades in the tie environment, where the unchanged loop needs ~1080 steps), plus a wall-clock backstop (no run completing for 180 s) for anything outside the watched loop; default build configuration",
  tech="deterministic simulation with fault injection: float-intrinsic seam (exp2) perturbed per plan, simulated step-clock watchdog for termination, exact rational oracle"),
"C14": dict(cat="exploration", ref="DESIGN.md §7",
  text="Seeded search over floats and decimals x the admissible results of the platform's f64::powi at the to_f64 seam. Exact oracles from bit patterns: float->decimal is the exact binary value, ->f64 returns the same bits, to_f64 of arbitrary decimals within 2^-48 / one subnormal step / infinity only near MAX, for every admissible powi result. Thorough enumerates all 2^32 f32 patterns (exhaustive for that sub-space).",
  note="admissible powi set: native +-8 ULP; std's decimal->float parser and num-bigint's BigUint::to_f64 are real, trusted code; x87 excess precision not modelled",
  tech="deterministic simulation with fault injection: float-intrinsic seam (powi) perturbed per plan, exact bit-level oracle; exhaustive f32 sweep in the thorough tier"),
"C17": dict(cat="exploration", ref="DESIGN.md §8",
  text="Seeded search over a three-node system in one process (producer - byte channel - consumer) built from real serde_json on simulated io::Write/io::Read transports with short transfers, EINTR, hard errors, torn frames and byte corruption, plus foreign JSON producers and a token-level serde peer (every visit_* / MapAccess behaviour, failing serializer sinks). Oracles: intact frames decode to the sent decimals (digits and scale), numerals are read digit for digit against an independent numeral parser, torn/corrupted frames never yield a wrong value, limits and malformed input give errors, no panics.",
  note="serde, serde_json and the derive output are real, trusted code (serde_json::Value is also used by the oracle for JSON structure); frame loss/duplication/reordering not injected because the crate keeps no state between values; default build configuration (scale limit 150000)",
  tech="deterministic simulation with fault injection: simulated transports and serde peers with explicit fault plans, reference-decode oracle"),
}
claimed = [c for c in ("C04","C12","C14","C17") if os.path.exists(os.path.join(HERE,"sim/src/props",c.lower()+".rs")) and c in sys.argv[1:]] if len(sys.argv)>1 else ["C04","C12","C14","C17"]
pending = {k:"claimed in DESIGN.md; its simulation check is still being built in this round and will move to 'checks' when it runs clean" for k in ("C04","C12","C14","C17") if k not in claimed}
m = {
 "version":1,
 "setup_cmd":"./check setup",
 "hooks":{"guard":"bigdecimal_verif","enable":"RUSTFLAGS=\"--cfg bigdecimal_verif\" (set by ./check when it builds /verif/sim against /repo's working tree)",
          "baseline_off_cmd":"cd /repo && cargo test --workspace --no-fail-fast --offline",
          "source_commits":["eda7c34"],"add_only":True},
 "engines":[{"name":"simdec","path":"sim","serves_properties":claimed,"kind_free_text":"deterministic simulator: seeded trace generation (one integer decides everything), explicit fault plans executed against the real crate through its seams, exact reference oracles, trace minimisation, self-contained replay files, known-finding classification"}],
 "checks":[
  {"property_id":c,"quick_cmd":"./check %s quick"%c,"thorough_cmd":"./check %s thorough"%c,"evidence_file":"evidence/%s.json"%c,
   "replay_cmd_template":"./check replay {path}","engine":"simdec",
   "level_claimed":{"category":checks[c]["cat"],"text":checks[c]["text"],"design_ref":checks[c]["ref"]},
   "level_note":checks[c]["note"],"technique":checks[c]["tech"]} for c in claimed],
 "not_applicable":[{"property_id":k,"reason":v} for k,v in sorted({**na,**pending}.items())],
 "notes":"See DESIGN.md (section 15 for what was built and found). ./check exits 2 for harness errors (build failure, stuck reach probe, stuck generator, nondeterminism, failures that depend on execution history and cannot be replayed), never confused with a verdict. A process death or a stall inside the code under test is attributed to a run and reported as a VIOLATION (rules R0-process-survives / R0-operation-returns). Fixes of genuine defects found by these checks are the eight 'fix:' commits in /repo, listed in known-findings.json under 'fixed'; the two open known findings (C17, serde_json Value route) print KNOWN-FINDING lines. seeded/ holds 155 independently written property-breaking changes with SENSITIVITY.md recording which rule catches each."
}
json.dump(m,open(os.path.join(HERE,'MANIFEST.json'),'w'),indent=1)
print("claimed:",claimed)
