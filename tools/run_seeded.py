#!/usr/bin/env python3
"""Apply every seeded change under /verif/seeded to /repo in turn, run the quick check of the property it breaks,
undo it, and record the outcome in seeded/<id>/meta.json and SENSITIVITY.md. /repo must be clean."""
import json, os, subprocess, sys, re, time
HERE = os.path.dirname(os.path.dirname(os.path.abspath(__file__)))
NEEDS = {
 "C04-a1": ("Display sign passed as pad_integral prefix in the dotless-exponent branch", "negative value with scale < -15 (more than 15 trailing zeros), no precision"),
 "C04-a2": ("engineering notation writes '-' after the early-returning zero-padding path", "negative value with no more digits than the 1-3 digit engineering shift"),
 "C04-a3": ("plain notation zero padding in 32-char blocks drops a remainder of exactly 32", "scale an exact negative multiple of 32 in to_plain_string / write_plain_string"),
 "C04-b1": ("write_engineering_notation swallows the error of the fraction chunk", "caller-supplied sink that refuses the fraction chunk and accepts the later exponent chunks (fixed capacity / transient failure at call 3 or 4)"),
 "C04-b2": ("write_scientific_notation swallows the error of the '-' write", "negative value and a sink failing at its first call only (transient)"),
 "C04-b3": ("Display of zero skips the dotless-exponent branch", "exact zero with scale <= -16, compared on digits and scale"),
 "C12-a1": ("operand cut to p+2 digits before the Newton iteration", "x longer than p+2 digits whose reciprocal terminates (or nearly) within p digits, directed mode"),
 "C12-a2": ("HalfUp/HalfDown mirrored for negative operands", "negative x, HalfUp or HalfDown, rounding exactly on a tie"),
 "C12-a3": ("power-of-ten fast path in `1 / x` builds the result from +1", "integer `1 / x` operator form, negative x stored with digits exactly -1"),
 "C12-b1": ("operand rounded to p+2 digits when longer", "operand longer than p+2 digits, directed mode, 1/x near a p-digit boundary"),
 "C12-b2": ("iteration cap correct only for the normal initial guess", "323-digit integer of exactly 1073 bits (subnormal exp2 result rounds to 2^-1074), certain precisions; platform dependent (a flushing exp2 hides it)"),
 "C12-b3": ("backup guess uses round() for the fraction and trunc() for the integer part", "integer of >= 1075 bits (f64 underflow of the guess) with frac(bits*log10 2) >= 0.5: Newton diverges, never terminates"),
 "C14-a1": ("f32 subnormal mask keeps 22 instead of 23 fraction bits", "f32 subnormals with fraction bit 22 set"),
 "C14-a2": ("integer fast path through a saturating `as i64` cast", "exactly the f64 +2^63"),
 "C14-a3": ("NaN/infinity classification replaced by == f64::INFINITY", "exactly f64 -inf"),
 "C14-b1": ("to_f64 keeps 16 instead of 25 digits when trimming", "float-derived decimals whose digit count is 16 mod 19; breaks only the exact round trip, stays within 2^-48"),
 "C14-b2": ("sign dropped in the merged exponent-overflow arms", "negative decimal whose exponent does not fit an i32"),
 "C14-b3": ("division fast path guarded by 64 instead of 53 bits (double rounding)", "16-20 significant digits with scale 1..22"),
 "C17-a1": ("visit_u64/i64/u128 forwarded through `as i128`", "a non-JSON format calling visit_u128 with a value >= 2^127"),
 "C17-a2": ("json_num limit check lost abs()", "json_num with a negative exponent beyond the limit (scale > 150000)"),
 "C17-a3": ("json_num_option turns a parse error into None", "JSON number whose exponent pushes the scale outside i64 in an Option field"),
 "C17-b1": ("Display fast path swallows the sink error of the '-' write", "negative value in plain notation through a streaming collect_str whose sink fails exactly on the sign fragment and then recovers"),
 "C17-b2": ("json_num limit check lost abs()", "json_num with resulting scale above +150000"),
 "C17-b3": ("f64 infinity test misses -inf", "a non-JSON peer handing visit_f64(-inf)"),
 "C04-c1": ("exponent printed through `as i32` behind an unsigned 32-bit guard in {:e}/{:E}/Display's E form", "printed exponent magnitude in [2^31, 2^32)"),
 "C04-c2": ("zero never takes Display's leading-zero exponent branch", "zero with scale > 6: breaks only the bounded-length / threshold clause, the text still round-trips"),
 "C04-c3": ("parser reads exponent fields of <= 10 characters as i32", "scientific / engineering notation (no '+' printed) with exponent in 2147483648..9999999999"),
 "C04-d1": ("parser reads exponent fields of <= 10 characters as i32 (helper variant)", "scientific / engineering notation with exponent in 2^31..10^10"),
 "C04-d2": ("plain notation writes leading zeros in blocks and discards the sink's errors", "pure fraction written by write_plain_string into a sink that refuses a zero block and accepts the digits"),
 "C04-d3": ("zero filtered out of Display's trailing-zero count", "zero with scale <= -16, compared on digits and scale"),
 "C12-c1": ("u64 power-of-ten fast path taken for 10^20 in to_owned_with_scale", "digits(x) + p equal to 18 or 19: the Newton loop never converges (release) / debug_assert (debug)"),
 "C12-c2": ("operand truncated to p+3 digits before the iteration", "terminating reciprocal of a long 2^i 5^j operand at or just above its exact length under Up / Ceiling: 16 of 39711 grid cells"),
 "C12-c3": ("`1.0 / x` shortcut for +-1 x 10^k always returns a positive one", "float `1.0 / x` operator form, negative x stored with digits exactly -1"),
 "C12-d1": ("iteration budget exactly tight for the normal initial guess", "323-digit coefficient of exactly 1073 bits (subnormal exp2 result with one significant bit), p in 16..19 / 33..42 / 65..89 / 129..150; platform dependent"),
 "C12-d2": ("range check on the bit count (1075) replaces the check on the exp2 result", "coefficient of exactly 1075 bits, or any of 1023..1075 bits on a platform that flushes subnormal exp2 results: the guess is 0 and so is the result"),
 "C12-d3": ("power-of-ten fast path in inverse_with_context before the sign is copied", "negative x stored with coefficient exactly -1"),
 "C14-c1": ("integral fast path through a saturating `as i64` (f32 and f64)", "exactly +2^63"),
 "C14-c2": ("u32 cast after stripping exactly 20 trailing zero bits", "f64 with negative binary exponent whose mantissa has exactly 20 trailing zero bits (2^-21 per random mantissa) or integers in [2^32, 2^33)"),
 "C14-c3": ("u128 shift fast path one binade too wide", "f64 with exponent field 1151 (|n| in [2^128, 2^129))"),
 "C14-d1": ("exact-division fast path guarded by an estimated digit count (16 instead of 15)", "16-17 digit integers above 2^53 with scale 1..22; constant table, so the powi seam cannot expose it"),
 "C14-d2": ("early overflow exit treats f64::MAX_10_EXP as exclusive", "digits = 1, scale = -308 exactly (1e308)"),
 "C14-d3": ("zero special case removed from to_f64", "zero with scale < -308: 0 * inf = NaN"),
 "C17-c1": ("json_num integer fast path serializes the magnitude of large negative integers", "json_num, scale 0, negative, magnitude in (2^63, 2^64)"),
 "C17-c2": ("json_num_option limit check became a half-open range", "Option adapter, Some value with scale exactly +150000"),
 "C17-c3": ("JSON adapters use plain notation for small exponent forms", "zero with scale in -32..=-16 through either JSON adapter"),
 "C17-d1": ("json_num_option turns a parse error into None", "JSON number whose exponent magnitude is about 2^63 or more in an Option field"),
 "C17-d2": ("scale limit compared in 32 bits (build.rs + both checks)", "exponent whose magnitude mod 2^32 is <= 150000, e.g. 1e4294967296"),
 "C17-d3": ("visit_map accepts any single key", "a JSON object with exactly one entry where a decimal is expected, e.g. {\"amount\": 12.5}"),
 "C04-e1": ("scientific notation streams digits through a 128-byte buffer and skips the final flush of a full buffer", "digit count 129, 257, ... (fraction digits an exact multiple of 128)"),
 "C04-e2": ("Display for BigDecimalRef passes the two thresholds swapped", "`{}` on a reference with 6..15 leading zeros or scale in [-15,-6]: text still round-trips, only the documented-threshold / value-vs-reference clauses break"),
 "C04-e3": ("plain notation writes the zero run in 256-byte blocks and drops a remainder of exactly one block", "scale -256, -512, ... in plain notation"),
 "C04-f1": ("plain notation writes zeros in 64-byte blocks and drops a remainder of exactly 64", "scale -64, -128, ... in plain notation"),
 "C04-f2": ("Display for BigDecimalRef passes the two thresholds swapped", "`{}` on a reference with 6..15 leading zeros or scale in [-15,-6]"),
 "C04-f3": ("bit-length fast reject in == / cmp uses 3322/1000 for log2(10)", "correctly printed plain text re-parses to a decimal that compares unequal: scale difference 205, 264, 323, ... and digits at or just above a power of two"),
 "C12-e1": ("divisor truncated to p+3 digits before the iteration", "x longer than p+3 digits leading with 1.0-1.41, 1/x next to a p-digit boundary, directed mode (2 of 400000 random; 96 of 229719 grid cells)"),
 "C12-e2": ("`&a * &b` shortcut for b == 1 adds b's scale (wrong for 1.000)", "x within about 10^-(p+2) of 1: the iterate is a padded one and the Newton loop never settles"),
 "C12-e3": ("initial guess trusts bit_count <= 1074 instead of checking the float", "308-324 digit input on a platform that flushes subnormal exp2 results to zero: guess 0, result 0"),
 "C12-f1": ("power-of-two shortcut takes 2^-k straight from exp2", "exact power of two with k >= 1075 (result 0), or any exp2 that is a last bit off on integer arguments"),
 "C12-f2": ("staged working precision with a numeric convergence test across stages", "digits 33..64 of 1/x all zeros or nines and p >= 31 (e.g. 10^k +- 1 with k >= 64)"),
 "C12-f3": ("u64/u128 fast path overflows when appending the sticky digit", "integer value exactly 1 or 2 at p = 36 exactly"),
 "C14-e1": ("u64 shift fast path forgets the implicit leading bit", "f32 with exponent field 191 (magnitude in [2^64, 2^65))"),
 "C14-e2": ("from_f64 bypasses the subnormal dispatch that parse_from_f64 no longer re-checks (two sites)", "a subnormal f64 through FromPrimitive::from_f64 specifically"),
 "C14-e3": ("digit transposition in word 41 of the 5^1074 constant", "any subnormal f64, visible only to an exact-value check (relative error 2^-1172: round trip and tolerance still pass)"),
 "C14-f1": ("power built from repeated multiplications by a hoisted powi(10,19)", "platform whose powi is >= 1 ULP off and a large positive exponent: the error enters up to 16 times"),
 "C14-f2": ("division fast path for short decimals", "platform whose powi(10,k) is inexact for k <= 22 and a float with a short decimal expansion: round trip breaks"),
 "C14-f3": ("multiply-by-ten loop beyond 10^22", "certain significands (92827 and multiples) with exponents 200..308: 2.5 per million exceed 2^-48"),
 "C17-e1": ("scale limit compared in 32 bits", "exponent whose magnitude mod 2^32 is <= 150000"),
 "C17-e2": ("json_num_option turns an unparsable number into None", "valid JSON number whose scale does not fit i64, Option adapter"),
 "C17-e3": ("visit_map ignores the key", "a genuine map / JSON object whose first value is decimal-like where a decimal is expected"),
 "C17-f1": ("parser strips every leading '+' of the exponent, then accepts one more sign", "numeric string with a doubled exponent sign (1e+-5): accepted instead of an error"),
 "C17-f2": ("subnormal test on the exponent bits forgets the sign bit (two sites)", "negative subnormal f64 handed over through visit_f64"),
 "C17-f3": ("json_num_option rejects exponent fields longer than 7 characters", "foreign JSON with leading zeros in the exponent (1.5e+0000007) through the Option adapter"),
 "C04-g1": ("ten_to_the_u64 became a lookup table whose 10^14 row repeats 10^13 (shared helper, feeds ==)", "scale exactly -14 rendered by Display / plain, then compared with ==: right text, 'unequal'"),
 "C04-g2": ("FromStr fast path parses up to 19 plain digits as i64 and propagates the overflow", "renderings that are exactly 19 unsigned digits >= 2^63"),
 "C04-g3": ("equality fast path calls ten_to_the_u64(20)", "scales differing by exactly 20 (plain text of a scale -20 decimal): wraps in release, debug_assert in debug"),
 "C12-g1": ("count_decimal_digits via f64 log10 for u64 values", "integers just below 10^k (k = 15..19): working value of all nines is cut one digit short; p in 13..17, truncating mode, x just above a power of ten"),
 "C12-g2": ("with_prec u64 fast path adds p/2 unchecked", "Newton product in the top sliver of the u64 range: 1/x starting 1.84.., 15-digit coefficient at p=1 (13 at p=2, 11 at p=3): result 0 in release"),
 "C12-g3": ("limb-wise equality returns early when one side runs out of limbs", "coefficient 10^s + m*2^64 at scale s compares equal to one: is_one() shortcut returns the input as its own reciprocal"),
 "C14-g1": ("whole-number shortcut through a saturating `as i64` in TryFrom<f32/f64>", "exactly +2^63"),
 "C14-g2": ("to_cow_biguint_and_scale strips trailing zeros but caps only the division at 19", "stored integer with >= 20 trailing zeros and non-zero scale (e.g. subnormals with >= 20 trailing zero mantissa bits)"),
 "C14-g3": ("owned to_f64 fast path guarded by 16 digits instead of 2^53", "coefficients in (2^53, 10^16) with scale 1..22: owned and reference forms disagree, round trip off by one ulp"),
 "C17-g1": ("Display negates the scale in i64 before widening", "non-zero decimal with scale exactly i64::MIN (outside the quantified scale range; string form must still round-trip)"),
 "C17-g2": ("f32 subnormal mask one bit short", "f32 tokens in the upper half of the subnormal range"),
 "C17-g3": ("From<u128> routed through `as i128`", "u128 tokens >= 2^127"),
 "C04-h1": ("exponential fast path combines the two write results with .or() instead of .and()", "{:e}/{:E}/Display-E into a writer where the mantissa fits and the exponent does not: Ok with the exponent missing; String output byte-identical"),
 "C04-h2": ("plain notation streams the zero run and returns Ok when a block write fails", "write_plain_string of a negative-scale value into a writer that runs out of room during the zero padding"),
 "C04-h3": ("engineering notation through a latching adapter whose error flag is assigned, not latched", "a piece other than the last fails and the last succeeds (fixed-capacity buffer / fail-once writer)"),
 "C12-h1": ("initial-guess guard on the exp2 argument instead of its result", "platform flushing subnormal exp2 results to zero, 1023..1074-bit magnitude: result 0"),
 "C12-h2": ("exact fast path for powers of two taken from exp2", "platform whose exp2 of an integer is one ULP off: 1/2 at p=1 Down gives 0.4"),
 "C12-h3": ("step budget derived from the assumed guess quality", "platform returning 2^-1074 for exp2(-1075) (an exact tie, one ULP from 0): the clean loop needs ~1080 steps, the budget stops at 13"),
 "C14-h1": ("fast path dividing by powi(10, scale) for short decimals", "platform whose powi(10,k) is 1 ULP off for small k: float round trip breaks (0.375 -> 0.37499999999999994)"),
 "C14-h2": ("scaling in steps of powi(10,22)", "platform whose powi is 2+ ULP off and a large positive exponent: the error enters up to 14 times"),
 "C14-h3": ("trimming divisor taken from powi(10,19) as u64", "platform whose powi(10,19) is 1 ULP off: every float with more than 44 digits fails the round trip"),
 "C17-h1": ("dotless-exponent Display fast path forgets a failed write when another piece succeeds", "value shown as <digits>e+N and a streaming serializer whose writer fails at one particular write (here: a transient ENOSPC under serde_json::to_writer)"),
 "C17-h2": ("visit_u128 through `as i128`", "a peer calling visit_u128 with a value >= 2^127"),
 "C17-h3": ("json_num_option serializes None with serialize_unit", "a peer format that distinguishes unit from none (JSON prints null for both)"),
 "C04-i1": ("plain notation of pure fractions through format!(\"{:0>width$}\") (16-bit runtime width since rustc 1.87)", "plain notation, |value| < 1, scale > 65535: panic"),
 "C04-i2": ("Display for BigDecimalRef passes the thresholds swapped", "`{}` on a reference in the two threshold windows"),
 "C04-i3": ("scientific notation of zero writes 0e{scale} instead of 0e{-scale}", "zero with non-zero scale, compared on scale"),
 "C04-j1": ("plain notation delegates zero padding to a helper that silently refuses beyond 1000 zeros", "plain notation with scale < -1000"),
 "C04-j2": ("parser moves a run of >= 512 trailing zeros of a dot-less, exponent-less text into the scale", "scale exactly 0, digit string ending in >= 512 zeros, Display or plain notation"),
 "C04-j3": ("Display drops the e+N suffix unless a precision was requested", "ONLY in a build with RUST_BIGDECIMAL_FMT_EXPONENTIAL_UPPER_THRESHOLD > 20: behaviour in the default configuration is unchanged, so C04 as checked (default configuration) still holds; compile-time configuration is property C20's subject, which is not claimed"),
 "C12-i1": ("limb-wise equality returns early", "coefficient 10^s + m*2^64 at scale s in 1..19: is_one() shortcut"),
 "C12-i2": ("power-of-two shortcut decided by to_f64()", "x within 1e-16 relative of 2^k (k in 1..30) and p >= 17"),
 "C12-i3": ("trailing zeros of the operand stripped with a u8 counter", "coefficient with >= 256 trailing zeros (e.g. (-0.125).with_scale(280)): off by 10^256 in release, overflow panic in debug"),
 "C12-j1": ("equality stops reading high limbs", "int_val = 10^scale (mod 2^64), int_val >= 2^64, scale 1..19"),
 "C12-j2": ("hand-written is_one() does not check for digits above the one when scale >= 20", "integers ending in 1 stored with >= 20 fractional zeros (21.000...0); also a hang when an iterate reaches 11.000...0"),
 "C12-j3": ("Newton correction factor trimmed to 2(p+2)+6 digits", "1/x within 10^-(p+8) working units of T + u^2/(4T) for a half-way point T of the (p+2)-digit working value: the two neighbours map onto each other and the loop alternates for ever (about 10^-(p+9) per random input)"),
 "C14-i1": ("u64 product reduced_mantissa * 5^k allowed for k <= 14 (5^14 > 2^32)", "exactly 14 fractional binary digits, odd 32-bit reduced mantissa >= 3022314550 (about 4e-11 per random f64)"),
 "C14-i2": ("19-digit zero chunks stripped after the trimming count was computed", "stored integer of >= 44 digits ending in >= 19 zeros with scale >= 19 (with_scale padding)"),
 "C14-i3": ("owned to_f64 shortcut through to_i128 returns None beyond 2^127 (and computes is_integer for any scale)", "whole number stored with >= 19 fractional zeros and magnitude >= 1.7e38; for huge scales the shortcut never returns"),
 "C14-j1": ("u64 product reduced_mantissa * 5^k allowed for k <= 14", "exactly 14 fractional binary digits, 32-bit reduced mantissa >= 3022314550"),
 "C14-j2": ("19-digit zero chunks stripped with a stale trimming count", ">= 44 digits ending in >= 19 zeros, non-zero scale"),
 "C14-j3": ("zero special case folded into the i32-overflow arm", "zero with scale in -309..-(2^31-1): 0 * inf = NaN"),
 "C17-i1": ("visit_str error message slices its input at byte 40", "rejected string longer than 40 bytes with a multi-byte character straddling byte 40: panic instead of Err"),
 "C17-i2": ("json_num_option limit skipped for zero", "Option adapter, zero mantissa, |scale| beyond the limit"),
 "C17-i3": ("parser keeps its digit buffer in a thread-local and forgets to clear it on the exponent-overflow error path", "history: a number with fraction digits rejected for exponent overflow, then any fractional number parsed by the same thread gets the stale digits glued in front (0.75 -> 250.75)"),
 "C17-j1": ("json_num_option through a hand-written visitor without visit_unit", "null in the Option adapter behind #[serde(flatten)] / an untagged enum (serde replays buffered null as unit)"),
 "C17-j2": ("parser error message slices its input at byte 64", "string longer than 64 bytes with a multi-byte character straddling byte 64 on one of two early error paths: panic"),
 "C17-j3": ("json_num limit skipped for zero", "json_num, zero mantissa, |scale| beyond the limit"),
 "C04-k1": ("plain notation of pure fractions through a run-time format width (16-bit since rustc 1.87)", "plain notation, scale >= 65536: panic"),
 "C04-k2": ("write_plain_string streams zeros in 4096-byte pages and drops one full page", "plain notation with scale <= -4096"),
 "C04-k3": ("zero filtered out of the trailing-zero count in Display", "zero with scale <= -16, compared on scale"),
 "C12-k1": ("`&1 / &x` divides the wrong way round", "both operands by reference (&1u8 / &x): returns x"),
 "C12-k2": ("integer / &BigDecimal shortcut through a truncating to_i128", "`1 / &x` with 1 < |x| < 2, x not an integer"),
 "C12-k3": ("operands longer than 2(p+3) digits truncated to p+3 digits", "terminating reciprocal whose power of ten is written into the coefficient (5^23 * 10^9 as 26 digits) at p=9/10, rounding away from zero; about 2 per 900000 random inputs"),
 "C14-k1": ("hand-written Clone whose clone_from copies the digits but not the scale", "a converted float stored with clone_from / clone_from_slice into an existing value of another scale, then to_f64"),
 "C14-k2": ("u128 product fast path guarded by a floating point log2 sum <= 128.0", "23 positive and 23 negative f64 whose exact decimal integer is within 1e-14 of 2^128 (just above 2^128/10^33..35)"),
 "C14-k3": ("BigDecimalRef::abs() gives zero a Plus sign; to_f64's zero test looks at the sign (two sites)", "to_f64 on zero.to_ref().abs() with scale <= -309: NaN"),
 "C17-k1": ("deserialize_in_place override never resets the scale for integer tokens", "Deserialize::deserialize_in_place into a value with non-zero scale, integer token"),
 "C17-k2": ("exponent fields longer than 20 characters rejected", "legal JSON numbers with many leading zeros in the exponent (1.5e+000000000000000000002)"),
 "C17-k3": ("json_num_option visitor without visit_unit", "null behind #[serde(flatten)] / untagged enum"),
 "C04-l1": ("parser splits digit strings over 100000 characters in halves and loses the sign when the leading half is -000...0", "plain notation of a negative value with scale above 100000 (-123e-250000 reads back positive)"),
 "C04-l2": ("write_plain_string caps padding at 2^24 zeros and writes {int}e{|scale|} beyond it", "plain notation at scale >= 2^24+1 (positive scales lose the negation of the exponent)"),
 "C04-l3": ("FromStr shortcut for all-digit strings over 4096 characters strips trailing zeros first", "plain rendering of zero with scale <= -4096 is rejected by the parser"),
 "C14-l1": ("powers of ten memoised in two separate process-wide atomics (torn read)", "two or more threads converting values with different non-negative exponents at the same time"),
 "C14-l2": ("underflow shortcut on the *estimated* digit count", "8 coefficient lengths (28, 87, 146, ...) with leading digits 4.94066..5.0 and scale = digits+323: value just above 2^-1074 converts to 0"),
 "C14-l3": ("5^149 computed on first use into statics; the flag is raised before the limbs are stored", "a subnormal f32 converted by another thread during the first microseconds of the process"),
 "C17-l1": ("exponent negation checked, the following addition not", "exponent -(2^127-1) with a fraction digit: panic in builds with overflow checks"),
 "C17-l2": ("json_num_option swallows the parse error", "valid JSON number whose scale overflows i64, Option adapter: None instead of an error"),
 "C17-l3": ("json_num writes {int}e{scale} for non-human-readable serializers (missing negation)", "json_num through a serializer with is_human_readable() == false"),
 "C12-l1": ("Mul shortcut: when the left operand is one, `self` is returned instead of `rhs`", "an intermediate Newton iterate exactly equal to 1.000 while 1/x is 1-20% away: a handful of short operands (0.9867, 0.93450..0.93456 at p=3; 0.93456 at p=4) and solved-for long ones"),
 "C12-l2": ("early exit when the rounding of the iterate carried to 10^j", "an intermediate iterate rounding up to 10^j (985209..985214 at p=4, solved-for long operands)"),
 "C12-l3": ("operand order swapped in the Newton step + reference Mul returns self.normalized() when the left is one (two sites)", "an intermediate iterate exactly equal to one"),
 "C04-m1": ("BigDecimalRef::clone_into skips the copy when the destination compares equal (== ignores scale)", "a value stored with clone_into over an equal value of another scale, then printed: trailing zeros dropped or invented"),
 "C04-m2": ("num_traits::Signed::abs returns Zero::zero() for zero", "zero with non-zero scale through Signed::abs, then printed"),
 "C04-m3": ("Neg for &BigDecimal returns BigDecimal::zero() for zero", "-&x for a zero with non-zero scale, then printed"),
 "C12-m1": ("float one / &x shortcut returns x itself", "1.0 / &x with a float one and a borrowed denominator"),
 "C12-m2": ("float one / x computes the reciprocal at the float's mantissa width", "1.0f64 / x by value with a reciprocal longer than 53 digits"),
 "C14-m1": ("from_f64 whole-number fast path through a saturating cast", "exactly +2^63 through FromPrimitive::from_f64 only"),
 "C14-m2": ("clone_into skips rebuilding when the magnitudes match and forgets the sign", "clone_into over a destination with the same digits and the opposite sign, then to_f64"),
 "C14-m3": ("from_f32 rejects everything that is not Normal or Zero", "subnormal f32 through FromPrimitive::from_f32 only"),
 "C17-m1": ("json_num_option swallows the parse error", "valid JSON number whose scale overflows i64, Option adapter"),
 "C17-m2": ("visit_i128 64-bit fast path guarded by wrapping_abs", "an i128 token equal to exactly -2^127: arrives as 0"),
 "C17-m3": ("parser strips leading '+' of the exponent, then accepts one more sign", "numeric strings like 1e+-5"),
 "C04-n1": ("exponent printed in base-10^9 blocks; an all-zero lower block is skipped instead of padded", "{:e} / {:E} / Display-E with a printed exponent that is a non-zero exact multiple of 10^9"),
 "C12-n1": ("operand cut to p+1 digits when it has more than 2p+16 digits", "operand much longer than the precision whose dropped digits matter"),
 "C14-n1": ("to_f64 fast path for coefficients of up to 54 bits", "short binary fractions whose decimal coefficient has exactly 54 bits: 1 ULP off on the way back"),
 "C14-n2": ("u64 wrapping product guarded by leading_zeros sum >= 63", "one mantissa trailing-zero count per exponent where reduced_frac * 5^k reaches 2^64"),
 "C17-n1": ("visitor trims strings before parsing", "string tokens with leading / trailing whitespace are accepted"),
 "C17-n2": ("private-number key matched with ends_with", "a map whose single key merely ends in ::private::Number"),
}
OUT_OF_SCOPE = {"C04-j3"}
def sh(cmd, **kw):
    return subprocess.run(cmd, shell=True, capture_output=True, text=True, **kw)
if sh("git -C /repo status --porcelain --untracked-files=no").stdout.strip():
    sys.exit("run_seeded: /repo is not clean")
rows = []
only = sys.argv[1:]
for name in sorted(os.listdir(os.path.join(HERE, "seeded"))):
    d = os.path.join(HERE, "seeded", name)
    if not os.path.isfile(os.path.join(d, "patch.diff")) or (only and name not in only): continue
    prop = name.split("-")[0]
    try:
        if sh(f"git -C /repo apply {d}/patch.diff").returncode != 0:
            rows.append((name, prop, "PATCH-DOES-NOT-APPLY", "", 0)); continue
        t0 = time.time()
        r = sh(f"VERIF_NO_EVIDENCE=1 {HERE}/check {prop} quick")
        dt = time.time() - t0
    finally:
        sh("git -C /repo checkout -- .")
    viol = [l for l in r.stdout.splitlines() if l.startswith("violation:")]
    rule = re.search(r"rule=(\S+)", viol[0]).group(1) if viol else ""
    m_run = re.search(r"run=(\d+)", viol[0]) if viol else None
    run = m_run.group(1) if m_run else ""
    verdict = {0: "MISSED", 1: "CAUGHT"}.get(r.returncode, f"HARNESS-ERROR({r.returncode})")
    if name in OUT_OF_SCOPE and r.returncode == 0:
        verdict = "NOT-APPLICABLE (no behaviour change in the default build configuration)"
    what, needs = NEEDS.get(name, ("", ""))
    conf = open(os.path.join(d, "confirmation.txt")).read().strip().splitlines() if os.path.exists(os.path.join(d, "confirmation.txt")) else []
    meta = {"id": name, "breaks_property": prop, "change": what, "needs_to_manifest": needs,
            "origin": "written by an independent sub-agent that was given only the property text and a scratch worktree of /repo",
            "confirmed": conf,
            "ran": [f"git -C /repo apply seeded/{name}/patch.diff", f"./check {prop} quick", "git -C /repo checkout -- ."],
            "result": {"verdict": verdict, "exit": r.returncode, "rule": rule, "first_failing_run": run, "wall_s": round(dt, 1),
                       "violation": (viol[0][:300] if viol else "")}}
    if not os.environ.get("RUN_SEEDED_DRY"):
        json.dump(meta, open(os.path.join(d, "meta.json"), "w"), indent=1)
    rows.append((name, prop, verdict, rule, run))
    print(name, verdict, rule, "run", run, f"{dt:.0f}s", flush=True)
if not only and not os.environ.get("RUN_SEEDED_DRY"):
    with open(os.path.join(HERE, "SENSITIVITY.md"), "w") as f:
        f.write("# Sensitivity: seeded changes vs. checks\n\nEach change compiles, passes the 861-test suite, and breaks its property (demonstration in `seeded/<id>/demo.rs`, confirmation in `confirmation.txt`). Written by fifty-six sub-agents in ten rounds that saw only the property text (rounds 2-3: asked for subtle changes that random testing would most likely miss; round 4: changes confined to shared helper code outside the property's own files; round 5: changes that manifest only through the environment - a failing caller-supplied writer, a platform-dependent exp2 / powi result, a serde peer; rounds 6-7: told to assume very thorough checking - round 7 was given a description of the kinds of checks in place - and to find what would still slip through). Regenerate with `tools/run_seeded.py` (applies each patch to /repo, runs the quick check, reverts).\n\n| seeded change | property | quick check | rule that fired | first failing run | what it needs |\n|---|---|---|---|---|---|\n")
        for (name, prop, verdict, rule, run) in rows:
            f.write(f"| {name} | {prop} | {verdict} | {rule} | {run} | {NEEDS.get(name, ('',''))[1]} |\n")
        caught = sum(1 for r in rows if r[2] == "CAUGHT")
        na = sum(1 for r in rows if r[2].startswith("NOT-APPLICABLE"))
        f.write(f"\n{caught} of {len(rows) - na} applicable changes caught by the quick tier ({na} not applicable: see its row).\n\nReverted tree: every check exits 0 (see evidence/).\n")
