#!/bin/sh
# tools/seed_sweep.sh <from> <to> [props...] - run the quick tier of each check under many VERIF_SEED values on the
# current tree (binary must be built: ./check <ID> quick once). Any non-zero exit is printed. For false-alarm hunting.
FROM=$1; TO=$2; shift 2; PROPS=${*:-C04 C12 C14 C17}
HERE=$(cd "$(dirname "$0")/.." && pwd)
# never trust a binary left over from a patched tree: rebuild against /repo as it is now
"$HERE/check" build || exit 2
bad=0
for s in $(seq "$FROM" "$TO"); do for p in $PROPS; do
  out=$(VERIF_DIR="$HERE" VERIF_NO_EVIDENCE=1 VERIF_SEED=$s timeout 600 "$HERE/sim/target/release/simdec" "$p" quick 2>&1); rc=$?
  if [ $rc -ne 0 ]; then bad=$((bad+1)); echo "seed $s $p exit $rc"; echo "$out" | grep -E "violation|HARNESS" | cut -c1-300 | head -3; fi
done; done
echo "seed sweep $FROM..$TO [$PROPS]: $bad non-zero exits"
