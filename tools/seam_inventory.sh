#!/bin/sh
# Re-runs the seam search of DESIGN.md §1 over /repo/src (non-test code is not separated: any hit is listed) and diffs it
# against tools/seam_inventory.expected. A tripwire for the applicability analysis, not a property check: never prints VIOLATION.
REPO=${1:-/repo}
HERE=$(cd "$(dirname "$0")" && pwd)
PAT='static mut|thread_local|lazy_static|once_cell|OnceLock|OnceCell|LazyLock|Mutex|RwLock|Atomic[A-Z]|RefCell|Cell<|UnsafeCell|unsafe |Rc<|Arc<|std::thread|std::time|Instant|SystemTime|std::env|std::fs|std::io|rand::|^static |[^a-z_]static [A-Z]'
(cd "$REPO/src" && grep -rnE "$PAT" --include='*.rs' . | grep -v '^./verif_hooks.rs' | sed 's/:[0-9]*:/: /' | sort) > /tmp/seam_inventory.$$
if [ "${2:-}" = "--update" ]; then cp /tmp/seam_inventory.$$ "$HERE/seam_inventory.expected"; echo updated; rm -f /tmp/seam_inventory.$$; exit 0; fi
if diff -u "$HERE/seam_inventory.expected" /tmp/seam_inventory.$$; then echo "seam inventory unchanged: $(wc -l < /tmp/seam_inventory.$$) hit(s), all accounted for in DESIGN.md §1"; rc=0; else echo "SEAM INVENTORY CHANGED: re-read DESIGN.md §1 (new shared state, clock, I/O or randomness may make more properties applicable)"; rc=3; fi
rm -f /tmp/seam_inventory.$$; exit $rc
