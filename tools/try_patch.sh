#!/bin/sh
# tools/try_patch.sh <patch.diff> <ID> [tier]   - apply a candidate change to /repo, run one check, undo.
# Prints: RESULT <patch> <ID> exit=<code> and the VIOLATION line if any. Never leaves /repo modified.
set -u
PATCH=$1; ID=$2; TIER=${3:-quick}
HERE=$(cd "$(dirname "$0")/.." && pwd)
if [ -n "$(git -C /repo status --porcelain --untracked-files=no)" ]; then echo "try_patch: /repo is not clean"; exit 2; fi
trap 'git -C /repo checkout -- . ' EXIT INT TERM
git -C /repo apply "$PATCH" || { echo "try_patch: patch does not apply"; exit 2; }
OUT=$(VERIF_NO_EVIDENCE=1 "$HERE/check" "$ID" "$TIER" 2>&1); rc=$?
echo "$OUT" | grep -E "^(violation:|VIOLATION|HARNESS-ERROR|OK )" | cut -c1-400
echo "RESULT $PATCH $ID exit=$rc"
exit 0
