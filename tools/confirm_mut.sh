#!/bin/sh
# tools/confirm_mut.sh <worktree> <mut_dir> <seed_name> <PROP>  - independently confirm a seeded change in its scratch worktree
# (suite passes with it; demo fails with it and passes without) and, if confirmed, store it under /verif/seeded/<seed_name>/.
set -u
WT=$1; MD=$2; NAME=$3; PROP=$4
HERE=$(cd "$(dirname "$0")/.." && pwd)
FEAT=""; grep -q "serde" "$MD/demo.rs" && FEAT="--features serde-json"
cd "$WT" || exit 2
git checkout -q -- . ; rm -f tests/demo.rs
git apply "$MD/patch.diff" || { echo "CONFIRM $NAME: patch does not apply"; exit 1; }
export CARGO_NET_OFFLINE=true
suite=$(cargo test --workspace --no-fail-fast --offline 2>&1 | grep -E "^test result" | head -1)
case "$suite" in *"861 passed; 0 failed"*) s_ok=1;; *) s_ok=0;; esac
suite2="(not run)"; s2_ok=1
if [ -n "$FEAT" ]; then suite2=$(cargo test --offline --no-fail-fast $FEAT 2>&1 | grep -E "^test result" | head -1); case "$suite2" in *"0 failed"*) s2_ok=1;; *) s2_ok=0;; esac; fi
mkdir -p tests; cp "$MD/demo.rs" tests/demo.rs
RUSTFLAGS="${DEMO_RUSTFLAGS:-}" cargo test --offline $FEAT --test demo >/tmp/confirm_with.$$ 2>&1; with_rc=$?
git checkout -q -- .
RUSTFLAGS="${DEMO_RUSTFLAGS:-}" cargo test --offline $FEAT --test demo >/tmp/confirm_without.$$ 2>&1; without_rc=$?
rm -f tests/demo.rs; rmdir tests 2>/dev/null
with_line=$(grep -E "^test result" /tmp/confirm_with.$$ | tail -1); without_line=$(grep -E "^test result" /tmp/confirm_without.$$ | tail -1)
rm -f /tmp/confirm_with.$$ /tmp/confirm_without.$$
echo "CONFIRM $NAME: suite_with_patch=[$suite] serde_suite=[$suite2] demo_with_patch_rc=$with_rc [$with_line] demo_without_rc=$without_rc [$without_line]"
if [ $s_ok = 1 ] && [ $s2_ok = 1 ] && [ $with_rc != 0 ] && [ $without_rc = 0 ]; then
  D="$HERE/seeded/$NAME"; mkdir -p "$D"; cp "$MD/patch.diff" "$MD/demo.rs" "$D/"; cp "$MD/notes.md" "$D/notes.md" 2>/dev/null
  printf '%s\n' "demo RUSTFLAGS: ${DEMO_RUSTFLAGS:-(none)}" "suite with patch: $suite" "serde-json suite with patch: $suite2" "demo with patch: rc=$with_rc $with_line" "demo without patch: rc=$without_rc $without_line" > "$D/confirmation.txt"
  echo "CONFIRMED $NAME"
else
  echo "REJECTED $NAME"
fi
